"""Runs real brax pipelines on rendered models and returns step-level observables (public State fields only)."""
from __future__ import annotations

import importlib

import numpy as np


def rollout(case):
  """case: xml, pipe, q, qd, steps, acts ([T][nu] or None), optional keep ('all' | 'last').

  Returns per-step arrays (index 0 = after init): q, qd, pos, rot, vel, ang and for spring/positional the total linear
  momentum P = sum_i mass_i * xd_i.vel_i and total mass."""
  import jax
  import jax.numpy as jp
  from brax.io import mjcf
  xml, pn = case['xml'], case['pipe']
  pipe = importlib.import_module(f'brax.{pn}.pipeline')
  import mujoco
  mujoco.MjModel.from_xml_string(xml)   # a document the reference compiler refuses is a harness bug, not a verdict
  try:
    sys = mjcf.loads(xml)
    T = int(case['steps'])
    nu = sys.act_size()
    acts = np.zeros((T, nu)) if case.get('acts') is None else np.asarray(case['acts'], float).reshape(T, nu)
    q0 = jp.asarray(np.asarray(case['q'], float)) if case.get('q') is not None else sys.init_q
    qd0 = jp.asarray(np.asarray(case['qd'], float)) if case.get('qd') is not None else jp.zeros(sys.qd_size())

    def obs(st):
      o = {'q': st.q, 'qd': st.qd, 'pos': st.x.pos, 'rot': st.x.rot, 'vel': st.xd.vel, 'ang': st.xd.ang}
      if pn in ('spring', 'positional'):
        o['P'] = jp.sum(st.mass[:, None] * st.xd_i.vel, axis=0)
        o['mass'] = jp.sum(st.mass)
      return o

    @jax.jit
    def run(q, qd, acts):
      st0 = pipe.init(sys, q, qd)

      def f(st, a):
        st = pipe.step(sys, st, a)
        return st, obs(st)

      _, tr = jax.lax.scan(f, st0, acts)
      return obs(st0), tr

    o0, tr = run(q0, qd0, jp.asarray(acts))
    out = {k: np.concatenate([np.asarray(o0[k])[None], np.asarray(tr[k])], axis=0) for k in o0}
    if case.get('keep') == 'last':
      out = {k: v[[0, -1]] for k, v in out.items()}
    out = {k: v.tolist() for k, v in out.items()}
    out['dt'] = float(sys.opt.timestep)
    out['gravity'] = np.asarray(sys.gravity).tolist()
    out['nu'] = int(nu)
    return out
  except Exception as e:  # the code under test failed: reported to the judge, never a machinery error
    import traceback
    return {'brax_error': f'{type(e).__name__}: {str(e)[:300]}', 'tb': traceback.format_exc()[-1500:]}


def float_state(model, r, qscale=1.0, qdscale=1.0, root_height=None, special=0.0):
  """Seeded generic float state for a ModelSpace model.  With probability `special` a coordinate takes a boundary
  value instead (joint coordinate exactly 0 or +-1e-4; root orientation an exact half turn, i.e. quaternion w = 0)."""
  q, qd = [], []
  for l in model['links']:
    if l['root'] == 'free':
      quat = np.array([r.gauss(0, 1) for _ in range(4)])
      if r.random() < special:
        quat[0] = 0.0
        if r.random() < 0.5:
          quat = np.array(r.choice([[0, 1, 0, 0], [0, 0.6, 0, 0.8], [0, 0, 0, 1], [0, 0.36, 0.48, 0.8]]), float)
      quat /= np.linalg.norm(quat)
      pos = [r.uniform(-1, 1), r.uniform(-1, 1), r.uniform(-1, 1) if root_height is None else root_height]
      q += pos + quat.tolist()
      qd += [r.uniform(-qdscale, qdscale) for _ in range(6)]
    else:
      q += [r.choice([0.0, 1e-4, -1e-4, 3e-4]) if r.random() < special else r.uniform(-qscale, qscale) for _ in l['stack']]
      qd += [r.uniform(-qdscale, qdscale) for _ in l['stack']]
  return q, qd
