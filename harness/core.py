"""Check context: verdict plumbing, known findings, replay files, evidence."""
from __future__ import annotations

import hashlib
import json
import os
import sys
import time

ROOT = os.path.dirname(os.path.dirname(os.path.abspath(__file__)))
EVID = os.path.join(ROOT, 'evidence')
REPLAYS = os.path.join(ROOT, 'replays')
WORK = os.path.join(ROOT, '.work')
FINDINGS = os.path.join(ROOT, 'known_findings.json')


def _jsonable(v):
  import fractions
  if isinstance(v, dict):
    return {str(k): _jsonable(x) for k, x in v.items()}
  if isinstance(v, (list, tuple)):
    return [_jsonable(x) for x in v]
  if isinstance(v, (set, frozenset)):
    return sorted((_jsonable(x) for x in v), key=repr)
  if isinstance(v, fractions.Fraction):
    return f'{v.numerator}/{v.denominator}' if v.denominator != 1 else v.numerator
  if isinstance(v, (str, int, float, bool)) or v is None:
    return v
  try:
    import numpy as np
    if isinstance(v, np.generic):
      return v.item()
    if isinstance(v, np.ndarray):
      return v.tolist()
  except ImportError:
    pass
  if hasattr(v, 'tolist'):
    return v.tolist()
  return repr(v)


class Ctx:
  """Collects what one check run covered and what it found."""

  def __init__(self, pid, tier, seed, level, replay=None):
    self.pid, self.tier, self.seed, self.level = pid, tier, seed, level
    self.replay = replay
    self.t0 = time.time()
    self.states = 0
    self.transitions = 0
    self.traces = 0
    self.evaluations = 0
    self.nontrivial = set()
    self.nontrivial_extra = 0
    self.samples = []
    self.rule = ''
    self.assumptions = []
    self.extra = {}
    self.tlc_cfgs = []
    self.coverage_actions = {}
    self.violations = []  # unlisted
    self.viol_tags = {}
    self.known_hits = {}  # finding id -> count
    self.notes = []
    self.exhaustive = None
    with open(FINDINGS) as f:
      fj = json.load(f)
    self.known = [k for k in fj.get('known', []) if k['property'] == pid]
    self.quick = tier == 'quick'

  # ---- TLC bookkeeping
  def add_tlc(self, res, label):
    self.states += res.distinct
    self.transitions += res.generated
    self.tlc_cfgs.append({'cfg': label, 'distinct': res.distinct, 'generated': res.generated,
                          'depth': res.depth, 'wall_s': round(res.wall_s, 2)})
    for a, (d, t) in res.coverage.items():
      self.coverage_actions[a] = self.coverage_actions.get(a, 0) + t

  # ---- coverage
  def case(self, key=None, nontrivial=False, sample=None):
    self.evaluations += 1
    if nontrivial:
      if key is None:
        self.nontrivial_extra += 1
      else:
        self.nontrivial.add(key if isinstance(key, (str, int)) else json.dumps(_jsonable(key), sort_keys=True))
    if sample is not None and len(self.samples) < 6:
      self.samples.append(_jsonable(sample))

  def note(self, msg):
    if len(self.notes) < 50:
      self.notes.append(msg)
    print(f'NOTE: {msg}', flush=True)

  # ---- verdicts
  def violation(self, what, case, tags=None):
    """Reports a property violation found on a concrete case (dict, replayable)."""
    tags = tags or {}
    for k in self.known:
      if all(tags.get(a) == b for a, b in k['match'].items()):
        self.known_hits[k['id']] = self.known_hits.get(k['id'], 0) + 1
        return 'known'
    tk = json.dumps(tags, sort_keys=True)
    self.viol_tags[tk] = self.viol_tags.get(tk, 0) + 1
    body = {'property': self.pid, 'what': what, 'tags': tags, 'case': _jsonable(case),
            'tier': self.tier, 'seed': self.seed}
    h = hashlib.sha1(json.dumps(body, sort_keys=True).encode()).hexdigest()[:12]
    path = os.path.join(REPLAYS, f'{self.pid}-{h}.json')
    if self.viol_tags[tk] <= 3 and len(self.violations) < 60:
      os.makedirs(REPLAYS, exist_ok=True)
      with open(path, 'w') as f:
        json.dump(body, f, indent=1, sort_keys=True)
      print(f'VIOLATION property={self.pid} replay={os.path.relpath(path, ROOT)}', flush=True)
      print(f'  what: {what}', flush=True)
    self.violations.append(path)
    return 'violation'

  def finish(self):
    for k in self.known:
      n = self.known_hits.get(k['id'], 0)
      if n:
        print(f'KNOWN-FINDING: property={self.pid} {k["id"]} {k["what"]} (reproduced on {n} cases)', flush=True)
      else:
        self.note(f'known finding {k["id"]} was not reproduced by this run')
    cov = {
        'evaluations': self.evaluations,
        'distinct_nontrivial': len(self.nontrivial) + self.nontrivial_extra,
        'rule': self.rule,
        'samples': self.samples[:6],
    }
    if self.states:
      cov.update({'states': self.states, 'transitions': self.transitions,
                  'traces_validated_against_impl': self.traces, 'tlc_cfgs': self.tlc_cfgs,
                  'coverage_actions': self.coverage_actions})
    if self.exhaustive is not None:
      cov['exhaustive'] = bool(self.exhaustive)
    if self.notes:
      cov['notes'] = self.notes
    if self.known_hits:
      cov['known_findings_reproduced'] = self.known_hits
    cov.update(_jsonable(self.extra))
    if self.viol_tags:
      cov['violations_by_tag'] = self.viol_tags
      print('violations by tag:', json.dumps(self.viol_tags), flush=True)
    ev = {
        'property_id': self.pid, 'tier': self.tier, 'seed': self.seed, 'level': self.level,
        'coverage': cov, 'assumptions': self.assumptions,
        'wall_s': round(time.time() - self.t0, 2), 'violations': len(self.violations),
    }
    if self.replay is None:
      # checks outside the listed properties (X..) keep their evidence apart from the claimed ones
      edir = EVID if not self.pid.startswith('X') else os.path.join(ROOT, 'evidence_extensions')
      os.makedirs(edir, exist_ok=True)
      with open(os.path.join(edir, f'{self.pid}.json'), 'w') as f:
        json.dump(ev, f, indent=1)
    print(f'{self.pid} {self.tier}: evaluations={self.evaluations} nontrivial={cov["distinct_nontrivial"]} '
          f'states={self.states} traces={self.traces} violations={len(self.violations)} '
          f'wall={ev["wall_s"]}s', flush=True)
    return 1 if self.violations else 0


def seed_base(ctx, salt=0):
  """SeedBase constant for the Prng-driven specifications (kept small: 32-bit arithmetic in TLC)."""
  return (ctx.seed % 500) * 100000 + salt * 1000


def rng(ctx, salt=0):
  import random
  return random.Random(ctx.seed * 1000003 + salt)
