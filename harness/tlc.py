"""Runs TLC and parses its report. Machinery errors raise MachineryError (-> exit 2)."""
from __future__ import annotations

import dataclasses
import os
import re
import shutil
import subprocess
import time

ROOT = os.path.dirname(os.path.dirname(os.path.abspath(__file__)))
SPEC = os.path.join(ROOT, 'spec')
WORK = os.path.join(ROOT, '.work')
JAR = '/opt/veriftools/tla/tla2tools.jar'
DEPS = '/opt/veriftools/tla/CommunityModules-deps.jar'


class MachineryError(Exception):
  pass


@dataclasses.dataclass
class TlcResult:
  ok: bool  # no invariant/property violation, no error
  generated: int
  distinct: int
  depth: int
  violated: str | None  # name of violated invariant/property, if any
  coverage: dict  # action name -> (distinct, total)
  stdout: str
  wall_s: float
  workdir: str
  trace: list  # counterexample states (raw text blocks) when violated

  @property
  def transitions(self):
    return self.generated


_GEN = re.compile(r'(\d+) states generated, (\d+) distinct states found')
_DEPTH = re.compile(r'The depth of the complete state graph search is (\d+)')
_COV = re.compile(r'^<(\w+) line \d+, col \d+ to line \d+, col \d+ of module (\w+)(?: \([\d ]+\))?>: (\d+):(\d+)', re.M)
_VIOL = re.compile(r'Error: (?:Invariant|Action property|Temporal property|Property) (\S+) (?:is|was) violated')


def write_cfg(path, *, init='Init', next_='Next', spec=None, constants=None, invariants=(),
              properties=(), constraints=(), action_constraints=(), view=None, postcondition=None,
              deadlock=False, symmetry=None):
  lines = []
  if spec:
    lines.append(f'SPECIFICATION {spec}')
  else:
    lines += [f'INIT {init}', f'NEXT {next_}']
  if constants:
    lines.append('CONSTANTS')
    for k, v in constants.items():
      lines.append(f'  {k} = {v}' if not str(v).startswith('<-') else f'  {k} {v}')
  for i in invariants:
    lines.append(f'INVARIANT {i}')
  for p in properties:
    lines.append(f'PROPERTY {p}')
  for c in constraints:
    lines.append(f'CONSTRAINT {c}')
  for c in action_constraints:
    lines.append(f'ACTION_CONSTRAINT {c}')
  if view:
    lines.append(f'VIEW {view}')
  if symmetry:
    lines.append(f'SYMMETRY {symmetry}')
  if postcondition:
    lines.append(f'POSTCONDITION {postcondition}')
  lines.append(f'CHECK_DEADLOCK {"TRUE" if deadlock else "FALSE"}')
  with open(path, 'w') as f:
    f.write('\n'.join(lines) + '\n')


def run(module, cfg_path, *, name, workers=None, coverage=False, dump=None, dump_dot=None,
        simulate=None, depth=None, seed=None, timeout=3600, env=None, extra=(), modules_dirs=(),
        expect_ok=False, java_opts=()):
  """Runs TLC on spec/<module>.tla with the given cfg. `name` names the scratch dir.

  Returns TlcResult. Raises MachineryError on parse errors, overflow, timeouts or anything
  that is not a clean pass or a property violation.
  """
  wd = os.path.join(WORK, name)
  shutil.rmtree(wd, ignore_errors=True)
  os.makedirs(wd, exist_ok=True)
  tla = module if module.endswith('.tla') else os.path.join(SPEC, module + '.tla')
  # TLC resolves EXTENDS relative to the spec file's directory and -DTLA-Library.
  libs = [SPEC, os.path.join(SPEC, 'lib')] + list(modules_dirs)
  cmd = ['java', '-XX:+UseParallelGC', '-Xmx8g', '-Xss512m', f'-DTLA-Library={os.pathsep.join(libs)}']
  cmd += list(java_opts)
  cmd += ['-cp', f'{JAR}:{DEPS}', 'tlc2.TLC', '-metadir', os.path.join(wd, 'meta'),
          '-noGenerateSpecTE', '-config', cfg_path]
  cmd += ['-workers', str(workers or min(16, os.cpu_count() or 1))]
  if coverage:
    cmd += ['-coverage', '1']
  if dump:
    cmd += ['-dump', dump]
  if dump_dot:
    cmd += ['-dump', 'dot,actionlabels', dump_dot]
  if simulate:
    cmd += ['-simulate', simulate]
  if depth:
    cmd += ['-depth', str(depth)]
  if seed is not None:
    cmd += ['-seed', str(seed)]
  cmd += list(extra)
  cmd += [tla]
  e = dict(os.environ)
  if env:
    e.update(env)
  t0 = time.time()
  try:
    p = subprocess.run(cmd, cwd=wd, env=e, capture_output=True, text=True, timeout=timeout)
  except subprocess.TimeoutExpired as ex:
    subprocess.run(['pkill', '-f', wd], check=False)
    raise MachineryError(f'TLC timed out after {timeout}s on {module} ({name})') from ex
  out = p.stdout + p.stderr
  with open(os.path.join(wd, 'tlc.out'), 'w') as f:
    f.write(out)
  wall = time.time() - t0
  gen = [(int(a), int(b)) for a, b in _GEN.findall(out)]
  generated, distinct = gen[-1] if gen else (0, 0)
  dm = _DEPTH.search(out)
  cov = {}
  for m in _COV.finditer(out):
    nm = m.group(1)
    d, t = int(m.group(3)), int(m.group(4))
    od, ot = cov.get(nm, (0, 0))
    cov[nm] = (max(od, d), max(ot, t))
  vm = _VIOL.search(out)
  violated = vm.group(1) if vm else None
  trace = []
  if violated or 'Error: The behavior up to this point is' in out:
    trace = re.findall(r'^State \d+:.*?\n(.*?)(?=\n\n|\nState |\Z)', out, re.S | re.M)
  clean = ('Model checking completed. No error has been found.' in out) or (
      simulate and p.returncode == 0 and 'Error:' not in out)
  if not clean and violated is None:
    if 'Deadlock reached' in out:
      violated = 'Deadlock'
    elif 'Assumption' in out and 'is false' in out:
      violated = 'Assumption'
    elif re.search(r'Error: .*[Pp]ostcondition', out) or 'POSTCONDITION' in out and 'violated' in out:
      violated = 'Postcondition'
    else:
      tail = '\n'.join(out.strip().splitlines()[-25:])
      raise MachineryError(f'TLC failed on {module} ({name}); rc={p.returncode}\n{tail}')
  res = TlcResult(ok=clean and violated is None, generated=generated, distinct=distinct,
                  depth=int(dm.group(1)) if dm else 0, violated=violated, coverage=cov,
                  stdout=out, wall_s=wall, workdir=wd, trace=trace)
  if expect_ok and not res.ok:
    tail = '\n'.join(out.strip().splitlines()[-40:])
    raise MachineryError(f'specification {module} ({name}) violates {violated} on its own:\n{tail}')
  return res


def require_coverage(res, actions, what=''):
  missing = [a for a in actions if res.coverage.get(a, (0, 0))[1] == 0]
  if missing:
    raise MachineryError(f'vacuity: actions never taken {missing} {what}')


def parse_rejects(res, label=''):
  """For batched trace validation (TraceLib.AllAccepted): returns {trace index (1-based): furthest event reached}."""
  from harness import tlaval
  if res.ok:
    return {}
  m = re.search(r'<<\s*"REJECT",\s*(\{.*?\})\s*>>', res.stdout, re.S)
  if not m:
    raise MachineryError(f'trace validation failed without a REJECT line ({label}):\n' + res.stdout[-3000:])
  return {int(a): int(b) for a, b in tlaval.parse_value(m.group(1))}
