"""brax.training.acting imports brax.v1, which does not import on the pinned JAX.
Register stub modules first so that the (unmodified) acting module can be imported."""
import sys
import types


def install():
  if 'brax.v1' in sys.modules:
    return
  try:
    import brax.v1  # noqa: F401
    import brax.v1.envs  # noqa: F401
    return
  except Exception:  # pylint: disable=broad-except
    for k in [k for k in sys.modules if k.startswith('brax.v1')]:
      del sys.modules[k]
  v1 = types.ModuleType('brax.v1')
  envs = types.ModuleType('brax.v1.envs')

  class _S:  # placeholder types, only used in type unions
    pass

  envs.State = _S
  envs.Env = _S
  envs.Wrapper = _S
  v1.envs = envs
  v1.__path__ = []
  sys.modules['brax.v1'] = v1
  sys.modules['brax.v1.envs'] = envs
  import brax
  brax.v1 = v1
