"""Parser for TLA+ values as TLC prints them (state dumps, dot dumps, PrintT output).

Value mapping:
  integers -> int, TRUE/FALSE -> bool, "s" -> str, <<a, b>> -> tuple,
  {a, b} -> frozenset, [k |-> v, ...] -> dict (str keys),
  (k :> v @@ k2 :> v2) -> dict (parsed keys), a..b -> tuple(range), identifiers -> Sym(name).
"""
from __future__ import annotations

import re


class Sym(str):
  """A model value / bare identifier."""

  def __repr__(self):
    return f'Sym({str.__repr__(self)})'


class ParseError(Exception):
  pass


_TOK = re.compile(
    r'\s*(?:(?P<int>-?\d+)|(?P<str>"(?:[^"\\]|\\.)*")|(?P<op><<|>>|\|->|:>|@@|\.\.|[\[\]{}(),])|(?P<id>[A-Za-z_][A-Za-z0-9_!]*))'
)


def _tokens(s):
  pos = 0
  out = []
  n = len(s)
  while pos < n:
    m = _TOK.match(s, pos)
    if not m:
      if s[pos:].strip() == '':
        break
      raise ParseError(f'bad token at {pos}: {s[pos:pos+40]!r}')
    pos = m.end()
    if m.group('int') is not None:
      out.append(('int', int(m.group('int'))))
    elif m.group('str') is not None:
      raw = m.group('str')[1:-1]
      out.append(('str', raw.replace('\\"', '"').replace('\\\\', '\\')))
    elif m.group('op') is not None:
      out.append(('op', m.group('op')))
    else:
      out.append(('id', m.group('id')))
  return out


class _P:

  def __init__(self, toks):
    self.t = toks
    self.i = 0

  def peek(self):
    return self.t[self.i] if self.i < len(self.t) else (None, None)

  def eat(self, kind=None, val=None):
    k, v = self.peek()
    if k is None or (kind and k != kind) or (val is not None and v != val):
      raise ParseError(f'expected {kind} {val}, got {k} {v} at {self.i}')
    self.i += 1
    return v

  def value(self):
    v = self.atom()
    k, o = self.peek()
    if k == 'op' and o == '..':
      self.eat()
      hi = self.atom()
      return tuple(range(v, hi + 1))
    return v

  def atom(self):
    k, v = self.peek()
    if k == 'int':
      self.i += 1
      return v
    if k == 'str':
      self.i += 1
      return v
    if k == 'id':
      self.i += 1
      if v == 'TRUE':
        return True
      if v == 'FALSE':
        return False
      return Sym(v)
    if k == 'op' and v == '<<':
      self.eat()
      items = []
      while self.peek() != ('op', '>>'):
        items.append(self.value())
        if self.peek() == ('op', ','):
          self.eat()
      self.eat('op', '>>')
      return tuple(items)
    if k == 'op' and v == '{':
      self.eat()
      items = []
      while self.peek() != ('op', '}'):
        items.append(_freeze(self.value()))
        if self.peek() == ('op', ','):
          self.eat()
      self.eat('op', '}')
      return frozenset(items)
    if k == 'op' and v == '[':
      self.eat()
      d = {}
      while self.peek() != ('op', ']'):
        key = self.eat('id')
        self.eat('op', '|->')
        d[str(key)] = self.value()
        if self.peek() == ('op', ','):
          self.eat()
      self.eat('op', ']')
      return d
    if k == 'op' and v == '(':
      self.eat()
      d = {}
      while True:
        key = self.value()
        self.eat('op', ':>')
        d[_freeze(key)] = self.value()
        if self.peek() == ('op', '@@'):
          self.eat()
          continue
        break
      self.eat('op', ')')
      return d
    raise ParseError(f'unexpected token {k} {v} at {self.i}')


def _freeze(v):
  if isinstance(v, dict):
    return tuple(sorted((k, _freeze(x)) for k, x in v.items()))
  if isinstance(v, (list, tuple)):
    return tuple(_freeze(x) for x in v)
  return v


def parse_value(s):
  p = _P(_tokens(s))
  v = p.value()
  if p.i != len(p.t):
    raise ParseError(f'trailing tokens in {s[:80]!r}')
  return v


_CONJ = re.compile(r'^/\\ ([A-Za-z_][A-Za-z0-9_]*) = ', re.M)


def parse_state(text):
  """Parses '/\\ a = v\n/\\ b = w' (values may span lines) into a dict."""
  ms = list(_CONJ.finditer(text))
  if not ms:
    # single-variable states are printed as 'x = v'
    m = re.match(r'^\s*([A-Za-z_][A-Za-z0-9_]*) = (.*)$', text, re.S)
    if not m:
      raise ParseError(f'no state in {text[:80]!r}')
    return {m.group(1): parse_value(m.group(2))}
  out = {}
  for i, m in enumerate(ms):
    end = ms[i + 1].start() if i + 1 < len(ms) else len(text)
    out[m.group(1)] = parse_value(text[m.end():end])
  return out


def parse_dump(path):
  """Parses a TLC `-dump file` text dump: yields state dicts."""
  with open(path) as f:
    buf = []
    for line in f:
      if line.startswith('State '):
        if buf:
          yield parse_state(''.join(buf))
          buf = []
      elif line.strip():
        buf.append(line)
    if buf:
      yield parse_state(''.join(buf))


_NODE = re.compile(r'^(-?\d+) \[label="((?:[^"\\]|\\.)*)"(.*)\];?$')
_EDGE = re.compile(r'^(-?\d+) -> (-?\d+) \[label="((?:[^"\\]|\\.)*)"')


def _unesc(s):
  return s.replace('\\n', '\n').replace('\\"', '"').replace('\\\\', '\\')


def parse_dot(path, parse_states=True):
  """Returns (nodes: id -> state dict, edges: list[(src, dst, label)], init ids)."""
  nodes, edges, inits = {}, [], []
  with open(path) as f:
    for line in f:
      line = line.rstrip('\n')
      m = _EDGE.match(line)
      if m:
        edges.append((int(m.group(1)), int(m.group(2)), _unesc(m.group(3))))
        continue
      m = _NODE.match(line)
      if m:
        nid = int(m.group(1))
        txt = _unesc(m.group(2))
        nodes[nid] = parse_state(txt) if parse_states else txt
        if 'style = filled' in m.group(3):
          inits.append(nid)
  return nodes, edges, inits


_LABEL = re.compile(r'^([A-Za-z_][A-Za-z0-9_]*)(?:\((.*)\))?$')


def parse_label(label):
  """'Ins(1, 2)' -> ('Ins', (1, 2))"""
  m = _LABEL.match(label.strip())
  if not m:
    raise ParseError(f'bad label {label!r}')
  if m.group(2) is None:
    return m.group(1), ()
  return m.group(1), parse_value('<<' + m.group(2) + '>>')


def to_tla(v):
  """Python -> TLA+ text (ints, bools, str, list/tuple -> seq, dict -> record, set)."""
  if isinstance(v, bool):
    return 'TRUE' if v else 'FALSE'
  if isinstance(v, int):
    return str(v)
  if isinstance(v, Sym):
    return str(v)
  if isinstance(v, str):
    return '"' + v.replace('\\', '\\\\').replace('"', '\\"') + '"'
  if isinstance(v, (list, tuple)):
    return '<<' + ', '.join(to_tla(x) for x in v) + '>>'
  if isinstance(v, (set, frozenset)):
    return '{' + ', '.join(to_tla(x) for x in sorted(v, key=repr)) + '}'
  if isinstance(v, dict):
    if all(isinstance(k, str) and re.match(r'^[A-Za-z_]\w*$', k) for k in v):
      return '[' + ', '.join(f'{k} |-> {to_tla(x)}' for k, x in v.items()) + ']'
    return '(' + ' @@ '.join(f'{to_tla(k)} :> {to_tla(x)}' for k, x in v.items()) + ')'
  raise TypeError(f'cannot render {type(v)}')


if __name__ == '__main__':
  assert parse_value('<<1, -2, "a">>') == (1, -2, 'a')
  assert parse_value('[a |-> "s", b |-> {1, 2}]') == {'a': 's', 'b': frozenset({1, 2})}
  assert parse_value('(1 :> 2 @@ 3 :> <<>>)') == {1: 2, 3: ()}
  assert parse_value('1..3') == (1, 2, 3)
  assert parse_state('/\\ out = <<"ins", 1>>\n/\\ x = 1') == {'out': ('ins', 1), 'x': 1}
  assert parse_label('Ins(1, 2)') == ('Ins', (1, 2))
  assert parse_value(to_tla({'a': [1, 2], 'b': True})) == {'a': (1, 2), 'b': True}
  print('ok')
