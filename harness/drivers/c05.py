"""C05 — physics does not depend on how the scene is represented.

ordering   : Scan.tla (grouped = naive, every forest / type string) replayed into brax.scan (c05_scan.py)
symmetry   : rigid-motion commuting square, sibling permutation and merged components on ModelSpace models of class
             "freeroot"; residuals accepted by Equivariance.tla."""
from __future__ import annotations

import copy
import json
import math
import os

import numpy as np

from harness import core, par, phys, render, tlaval, tlc
from harness.drivers import c05_scan

PIPES = ['generalized', 'spring', 'positional']
EPS = 1000000   # 1e-6 relative: two different XLA programs of a 1-5 step rollout (stiff constraint solvers amplify round-off: the last thorough sweep saw 1.3e-7 on one positional square out of 330; a broken symmetry shows at 1e-3 and above)


def quant(x):
  if not np.isfinite(x):
    return 2**30
  return int(max(0, min(2**30, round(x / 1e-12))))


def qmul(a, b):
  return np.array([a[0] * b[0] - a[1] * b[1] - a[2] * b[2] - a[3] * b[3],
                   a[0] * b[1] + a[1] * b[0] + a[2] * b[3] - a[3] * b[2],
                   a[0] * b[2] - a[1] * b[3] + a[2] * b[0] + a[3] * b[1],
                   a[0] * b[3] + a[1] * b[2] - a[2] * b[1] + a[3] * b[0]])


def rotv(v, q):
  s, u = q[0], q[1:]
  return 2 * np.dot(u, v) * u + (s * s - np.dot(u, u)) * v + 2 * s * np.cross(u, v)


def rel(a, b):
  a, b = np.asarray(a, float), np.asarray(b, float)
  if a.size == 0:
    return 0.0
  if not (np.all(np.isfinite(a)) and np.all(np.isfinite(b))):
    return float('inf')
  return float(np.max(np.abs(a - b)) / (1 + max(np.max(np.abs(a)), np.max(np.abs(b)))))


def qrel(a, b):
  a, b = np.asarray(a, float), np.asarray(b, float)
  return float(np.max(np.minimum(np.abs(a - b).max(axis=-1), np.abs(a + b).max(axis=-1))))


def diverged(o, limit=1e4):
  return int(not np.all(np.isfinite(np.array(o['qd']))) or (np.array(o['qd']).size and np.max(np.abs(np.array(o['qd']))) > limit))


def both_diverged(base, *others):
  """A square is excluded as 'diverged' only when the reference leg itself blows up (or is close to it); a leg that goes
  non-finite while the reference leg is tame is a broken square, not a diverged trajectory."""
  return int(diverged(base, 1e3) and True) if diverged(base, 1e3) else 0


def nonroot_idx(model):
  qi = di = 0
  qs, ds = [], []
  for l in model['links']:
    if l['root'] == 'free':
      qi += 7
      di += 6
    else:
      n = len(l['stack'])
      qs += list(range(qi, qi + n))
      ds += list(range(di, di + n))
      qi += n
      di += n
  return qs, ds


def reorder(model, r):
  """Same model with sibling order permuted at every level; returns (model2, perm) with new link k = old link perm[k]."""
  links = model['links']
  kids = {}
  for i, l in enumerate(links, 1):
    kids.setdefault(l['parent'], []).append(i)
  order = []

  def dfs(p):
    ks = kids.get(p, [])[:]
    r.shuffle(ks)
    for k in ks:
      order.append(k)
      dfs(k)

  for _ in range(6):          # prefer a non-identity order when one exists
    order.clear()
    dfs(0)
    if order != list(range(1, len(links) + 1)):
      break
  new_of = {old: new for new, old in enumerate(order, 1)}
  m2 = {'links': []}
  for old in order:
    l = copy.deepcopy(links[old - 1])
    l['parent'] = new_of[l['parent']] if l['parent'] else 0
    m2['links'].append(l)
  return m2, order


def split_q(model, q, qd):
  out, qi, di = [], 0, 0
  for l in model['links']:
    nq, nd = (7, 6) if l['root'] == 'free' else (len(l['stack']),) * 2
    out.append((list(q[qi:qi + nq]), list(qd[di:di + nd])))
    qi += nq
    di += nd
  return out


def group_case(case):
  return [phys.rollout(leg) for leg in case['legs']]


def run(ctx):
  q = ctx.quick
  r = core.rng(ctx, 5)
  from harness.drivers import c01
  ctx.rule = ('ordering: every forest with <= 4 (5) links x every admissible type string, grouped scan = naive definition, '
              'replayed into scan.tree / scan.link_types with integer data. symmetry: free-rooted ModelSpace models x 3 '
              'pipelines x random rigid motions x 1-5 steps; sibling permutations of models with >= 3 bodies; merged pairs. '
              'non-trivial = forest with >= 3 links and branching (scan); any symmetry square that did not diverge.')
  ctx.assumptions = ['two legs of a square are different XLA programs: residual tolerance 1e-6 relative',
                     'trajectories with |qd| > 1e4 are counted as diverged, not compared', 'collisions disabled (contact-free scenes)']
  c05_scan.run_scan(ctx, 4 if q else 5)
  os.makedirs(tlc.WORK, exist_ok=True)
  models = [c['model'] for c in c01.relational_cases(ctx, 'c05-models', 3 if q else 4, 4 if q else 90, cls='freeroot', seed_off=51)]
  # sibling-swap family: a root with two leaf children of DIFFERENT stack lengths; swapping them keeps link_parents and the
  # total dof count but changes how the dofs are distributed (what any table keyed on shape alone would get wrong)
  sib = [c['model'] for c in c01.relational_cases(ctx, 'c05-sib', 3, 40 if q else 200, cls='freeroot', seed_off=52)]
  sib = [m for m in sib if len(m['links']) == 3 and m['links'][1]['parent'] == 1 and m['links'][2]['parent'] == 1
         and len(m['links'][1]['stack']) != len(m['links'][2]['stack'])]
  models = sib[: (2 if q else 20)] + models
  cases, meta = [], []
  states = [phys.float_state(m, r, qscale=1.0, qdscale=1.0) for m in models]
  from harness.drivers import c04
  actsets = [c04.random_acts(m, r) for m in models]
  ctrls = [[r.uniform(-2, 2) for _ in a] for a in actsets]
  nsteps = r.randint(1, 5)          # one horizon per run so that merged partners share it
  for mi, m in enumerate(models):
    qv, qdv = states[mi]
    grav = np.array([0.0, 0.0, -9.81])
    acts, ctrl = actsets[mi], ctrls[mi]
    base = {'q': qv, 'qd': qdv, 'steps': nsteps, 'acts': [ctrl] * nsteps if acts else None, 'keep': 'last'}
    xml0 = render.render(m, gravity=tuple(grav), actuators=acts, custom={'matrix_inv_iterations': 0})
    # --- rigid motion
    g = np.array([r.gauss(0, 1) for _ in range(4)])
    g /= np.linalg.norm(g)
    if mi % 2 == 0 and m['links'][0]['root'] == 'free':
      # a frame in which the first root's quaternion passes through w = 0 during the rollout (half a turn away from the
      # world frame about its own spin axis): q' = g q0 with scalar part w0 > 0 small and dw/dt = -1/2 v . omega_body < 0
      q0, om = np.array(qv[3:7]), np.array(qdv[3:6])
      nom = np.linalg.norm(om)
      if nom > 1e-3:
        w0 = 0.4 * 0.5 * nom * nsteps * 0.002
        v = om / nom * math.sqrt(1 - w0 * w0)
        g = qmul(np.array([w0, v[0], v[1], v[2]]), np.array([q0[0], -q0[1], -q0[2], -q0[3]]))
        g /= np.linalg.norm(g)
    t = np.array([r.uniform(-3, 3) for _ in range(3)])
    q2, qd2 = list(qv), list(qdv)
    qi = di = 0
    for l in m['links']:
      if l['root'] == 'free':
        q2[qi:qi + 3] = (rotv(np.array(qv[qi:qi + 3]), g) + t).tolist()
        q2[qi + 3:qi + 7] = qmul(g, np.array(qv[qi + 3:qi + 7])).tolist()
        qd2[di:di + 3] = rotv(np.array(qdv[di:di + 3]), g).tolist()
        qi += 7
        di += 6
      else:
        qi += len(l['stack'])
        di += len(l['stack'])
    xml_g = render.render(m, gravity=tuple(rotv(grav, g)), actuators=acts, custom={'matrix_inv_iterations': 0})
    # --- sibling permutation
    m2, order = reorder(m, r)
    parts = split_q(m, qv, qdv)
    qp = sum([parts[o - 1][0] for o in order], [])
    qdp = sum([parts[o - 1][1] for o in order], [])
    new_of = {old: new for new, old in enumerate(order, 1)}
    acts_p = [dict(a, link=new_of[a['link']]) for a in acts]
    xml_p = render.render(m2, gravity=tuple(grav), actuators=acts_p, custom={'matrix_inv_iterations': 0})
    # --- merge with the next model
    mb = models[(mi + 1) % len(models)]
    qb, qdb = states[(mi + 1) % len(models)]
    merged = {'links': list(copy.deepcopy(m['links'])) + [dict(copy.deepcopy(l), parent=(l['parent'] + len(m['links']) if l['parent'] else 0))
                                                     for l in mb['links']]}
    mi2 = (mi + 1) % len(models)
    acts_m = acts + [dict(a, link=a['link'] + len(m['links'])) for a in actsets[mi2]]
    ctrl_m = ctrl + ctrls[mi2]
    xml_m = render.render(merged, gravity=tuple(grav), actuators=acts_m, custom={'matrix_inv_iterations': 0})
    for pipe in PIPES:
      gid = len(meta)
      legs = []
      for role, xml, qq, qqd in (('base', xml0, qv, qdv), ('perm', xml_p, qp, qdp), ('rigid', xml_g, q2, qd2),
                                 ('merged', xml_m, qv + qb, qdv + qdb)):
        leg = {**base, 'xml': xml, 'pipe': pipe, 'q': qq, 'qd': qqd, 'role': role}
        if role == 'merged':
          leg['acts'] = [ctrl_m] * nsteps if acts_m else None
        legs.append(leg)
      cases.append({'legs': legs})
      meta.append({'group': (mi, pipe), 'model': m, 'g': g, 't': t, 'order': order, 'mb': mb})
  outs = {}
  # all legs of a group run in ONE process, in sequence (base, then the permuted model, ...): hidden state carried
  # between systems (memoised index tables and the like) would show up as a broken square
  for (case, outl), mt in zip(par.run('harness.drivers.c05', 'group_case', cases), meta):
    for leg, out in zip(case['legs'], outl):
      outs.setdefault(mt['group'], {})[leg['role']] = (leg, out, mt)
  for (mi, pipe), d in outs.items():    # the components alone = the base legs of the two models
    d['a'] = d['base']
    d['b'] = outs[((mi + 1) % len(models), pipe)]['base']
  traces, info = [], []
  for grp, d in outs.items():
    if any('brax_error' in d[k][1] for k in d):
      k = [k for k in d if 'brax_error' in d[k][1]][0]
      ctx.violation(f'{grp[1]} raised on a {k} leg: {d[k][1]["brax_error"]}', {'xml': d[k][0]['xml'], 'pipe': grp[1]},
                    {'call': grp[1], 'predicate': 'raised'})
      continue
    m, mt = d['base'][2]['model'], d['base'][2]
    o0 = d['base'][1]
    qs, ds = nonroot_idx(m)
    last = lambda o, k: np.array(o[k])[-1]
    # rigid
    og = d['rigid'][1]
    g, t = mt['g'], mt['t']
    pos0 = np.array([rotv(p, g) + t for p in last(o0, 'pos')])
    rot0 = np.array([qmul(g, qq) for qq in last(o0, 'rot')])
    vel0 = np.array([rotv(v, g) for v in last(o0, 'vel')])
    ang0 = np.array([rotv(v, g) for v in last(o0, 'ang')])
    ev_r = {'kind': 'rigid', 'diverged': both_diverged(o0, og),
            'res_pose': quant(max(rel(pos0, last(og, 'pos')), qrel(rot0, last(og, 'rot')))),
            'res_vel': quant(max(rel(vel0, last(og, 'vel')), rel(ang0, last(og, 'ang')))),
            'res_q': quant(max(rel(last(o0, 'q')[qs], last(og, 'q')[qs]), rel(last(o0, 'qd')[ds], last(og, 'qd')[ds])))}
    # permutation
    op = d['perm'][1]
    order = mt['order']
    idx = [o - 1 for o in order]
    ev_p = {'kind': 'perm', 'diverged': both_diverged(o0, op),
            'res_pose': quant(max(rel(last(o0, 'pos')[idx], last(op, 'pos')), qrel(last(o0, 'rot')[idx], last(op, 'rot')))),
            'res_vel': quant(max(rel(last(o0, 'vel')[idx], last(op, 'vel')), rel(last(o0, 'ang')[idx], last(op, 'ang')))),
            'res_q': 0}
    # merge
    om, oa, ob = d['merged'][1], d['a'][1], d['b'][1]
    cat = lambda k: np.concatenate([last(oa, k), last(ob, k)])
    ev_m = {'kind': 'merge', 'diverged': max(both_diverged(oa, om), both_diverged(ob, om)),
            'res_pose': quant(max(rel(cat('pos'), last(om, 'pos')), qrel(cat('rot'), last(om, 'rot')))),
            'res_vel': quant(max(rel(cat('vel'), last(om, 'vel')), rel(cat('ang'), last(om, 'ang')))),
            'res_q': quant(rel(cat('qd'), last(om, 'qd')))}
    traces.append([ev_r, ev_p, ev_m])
    info.append((grp, d))
  tf = os.path.join(tlc.WORK, 'c05.json')
  with open(tf, 'w') as f:
    json.dump(traces, f)
  cfg = os.path.join(tlc.WORK, 'c05.cfg')
  tlc.write_cfg(cfg, init='TraceInit', next_='TraceNext', constants={'Eps': EPS}, constraints=['Progress'], postcondition='AllAccepted')
  res = tlc.run('Equivariance', cfg, name='c05', workers=1, env={'TRACE_FILE': tf})
  ctx.add_tlc(res, 'Equivariance.tla')
  rejected = tlc.parse_rejects(res, 'c05')
  ndiv = 0
  for i, (evs, (grp, d)) in enumerate(zip(traces, info)):
    ctx.traces += 1
    ndiv += sum(e['diverged'] for e in evs)
    ctx.case(key=(d['base'][0]['xml'], grp[1]), nontrivial=any(not e['diverged'] for e in evs),
             sample={'pipeline': grp[1], 'xml': d['base'][0]['xml'], 'residuals_1e-12': evs} if len(ctx.samples) < 5 and i % 5 == 0 else None)
    if (i + 1) in rejected:
      at = rejected[i + 1]
      bad = evs[at - 1]
      role = {'rigid': 'rigid', 'perm': 'perm', 'merge': 'merged'}[bad['kind']]
      ctx.violation(f'{grp[1]}: {bad["kind"]} square does not commute: residuals (x1e-12) {bad}',
                    {'pipe': grp[1], 'xml_base': d['base'][0]['xml'], 'xml_other': d[role][0]['xml'], 'q': d['base'][0]['q'],
                     'qd': d['base'][0]['qd'], 'steps': d['base'][0]['steps'], 'q_other': d[role][0]['q'], 'qd_other': d[role][0]['qd']},
                    {'call': grp[1], 'predicate': bad['kind']})
  ctx.extra.update(symmetry_groups=len(traces), diverged_legs=ndiv)
  ctx.exhaustive = False


def replay(ctx, path):
  with open(path) as f:
    body = json.load(f)
  print(json.dumps(body, indent=1)[:6000])
  ctx.seed, ctx.tier = body.get('seed', ctx.seed), body.get('tier', ctx.tier)
  ctx.quick = ctx.tier == 'quick'
  run(ctx)
