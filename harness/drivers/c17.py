"""C17 — replay buffers are bounded FIFO queues with faithful sampling.

spec -> code: the depth-bounded state graph of ReplayQueue.tla / ShardedQueue.tla is walked
  edge by edge against real Queue / UniformSamplingQueue / PmapWrapper / PjitWrapper objects.
code -> spec: random long histories on larger buffers with pytree records are validated by
  ReplayQueueTrace.tla / ShardedQueueTrace.tla.
"""
from __future__ import annotations

import itertools
import json
import os
import random

import numpy as np

from harness import core, tlaval, tlc

INV_QUEUE = ['HeldIsNewest', 'CursorRange', 'HostSizeAgrees', 'SizeIsAvailable', 'NeverUndefined']
PROP_QUEUE = ['SampleIsFifo', 'InsertRefusal']
INV_SHARD = ['EachShardHeldIsNewest', 'HostSizeAgrees', 'SizeIsSum', 'NeverUndefined']
PROP_SHARD = ['SampleInterleavesShards']


def _jax():
  import jax
  import jax.numpy as jnp
  from brax.training import replay_buffers as rb
  return jax, jnp, rb


# ---------------------------------------------------------------- real objects


class BraxFailure(Exception):
  pass


class Impl:
  """A real replay buffer plus helpers to snapshot/restore its host-side state."""

  def __init__(self, cap, batch, cyclic, kind, wrap=None, n=1, rich=False):
    jax, jnp, rb = _jax()
    self.jax, self.jnp = jax, jnp
    self.cap, self.batch, self.cyclic, self.kind, self.wrap, self.n = cap, batch, cyclic, kind, wrap, n
    self.rich = rich
    if rich:  # pytree record with leaves of different shapes/dtypes
      dummy = {'id': jnp.zeros((), jnp.float32), 'obs': {'a': jnp.zeros((3,), jnp.float32),
                                                          'b': jnp.zeros((2, 2), jnp.float32)},
               'flag': jnp.zeros((), jnp.int32)}
    else:
      dummy = {'id': jnp.zeros((), jnp.float32), 'v': jnp.zeros((2,), jnp.float32)}
    if kind == 'uniform':
      inner = rb.UniformSamplingQueue(cap, dummy, batch)
    else:
      inner = rb.Queue(cap, dummy, batch, cyclic=cyclic)
    self.inner = inner
    if wrap is None:
      inner.insert_internal = jax.jit(inner.insert_internal)
      inner.sample_internal = jax.jit(inner.sample_internal)
      self.obj = inner
    elif wrap == 'pmap':
      self.obj = rb.PmapWrapper(inner, local_device_count=n)
    elif wrap == 'pjit':
      from jax.sharding import Mesh
      mesh = Mesh(np.array(jax.devices()[:n]), ('x',))
      self.obj = rb.PjitWrapper(inner, mesh, ('x',))
    elif wrap == 'pjity':   # a 2-D mesh, buffer partitioned along the NON-leading axis only: n = size of 'y'
      from jax.sharding import Mesh
      devs = np.array(jax.devices()[:8]).reshape(8 // n, n)     # e.g. 4 x 2 or 2 x 4: the two axes have different sizes
      mesh = Mesh(devs, ('x', 'y'))
      self.obj = rb.PjitWrapper(inner, mesh, ('y',))
    self._host0 = dict(inner.__dict__)
    self.key0 = jax.random.PRNGKey(7)

  def init(self):
    self.inner.__dict__.update(self._host0)
    try:
      return (self.obj.init(self.key0), dict(self.inner.__dict__))
    except Exception as e:  # pylint: disable=broad-except
      raise BraxFailure(f'init raised {type(e).__name__}: {str(e)[:200]}')

  def restore(self, snap):
    self.inner.__dict__.update(snap[1])
    return snap[0]

  def records(self, ids):
    jnp = self.jnp
    ids = np.asarray(ids, np.float32)
    if self.rich:
      return {'id': jnp.asarray(ids),
              'obs': {'a': jnp.asarray(np.stack([ids + 0.25, ids * 2, -ids], 1)),
                      'b': jnp.asarray(np.stack([ids * 3, ids * 5, ids * 7, ids + 0.5], 1).reshape(-1, 2, 2))},
              'flag': jnp.asarray((ids.astype(np.int32) * 11) % 13)}
    return {'id': jnp.asarray(ids), 'v': jnp.asarray(np.stack([ids * 2, self._v1(ids)], 1))}

  @staticmethod
  def _v1(ids):
    """second payload component: 3*id, or +inf for every 4th record (e.g. a log-probability of a saturated action)"""
    ids = np.asarray(ids, np.float32)
    return np.where((ids % 4 == 0) & (ids > 0), np.inf, ids * 3).astype(np.float32)

  def decode(self, batch):
    """Returns list of ids; raises AssertionError if the leaves of a record disagree."""
    ids = np.asarray(batch['id'])
    if self.rich:
      a, b, f = np.asarray(batch['obs']['a']), np.asarray(batch['obs']['b']), np.asarray(batch['flag'])
      ok = (np.allclose(a, np.stack([ids + 0.25, ids * 2, -ids], 1)) and
            np.allclose(b.reshape(-1, 4), np.stack([ids * 3, ids * 5, ids * 7, ids + 0.5], 1)) and
            np.array_equal(f, (ids.astype(np.int32) * 11) % 13))
      # a never-written slot is all zeros: id 0 with a = (0,0,0): flagged as id 0 by the caller
      if not ok and not (np.all(ids == 0)):
        return None
    else:
      v = np.asarray(batch['v'])
      if not np.array_equal(v, np.stack([ids * 2, self._v1(ids)], 1)):
        return None
    return [int(x) for x in ids]

  def insert(self, snap, ids):
    st = self.restore(snap)
    try:
      st2 = self.obj.insert(st, self.records(ids))
    except ValueError:
      # a refused call must leave the object as it was; keep whatever host-side state it has NOW so that a refusal with
      # side effects shows up in the following operations
      return (st, dict(self.inner.__dict__)), 'ValueError'
    except Exception as e:  # any other exception of the code under test is an outcome to be judged, not a harness failure
      return (st, dict(self.inner.__dict__)), f'raised {type(e).__name__}'
    return (st2, dict(self.inner.__dict__)), 'ok'

  def sample(self, snap):
    st = self.restore(snap)
    try:
      st2, batch = self.obj.sample(st)
    except ValueError:
      return (st, dict(self.inner.__dict__)), 'ValueError', None
    except Exception as e:  # pylint: disable=broad-except
      return (st, dict(self.inner.__dict__)), f'raised {type(e).__name__}', None
    return (st2, dict(self.inner.__dict__)), 'batch', self.decode(batch)

  def size(self, snap):
    try:
      return int(self.obj.size(snap[0]))
    except Exception:  # pylint: disable=broad-except
      return -999

  def internals(self, snap):
    st = snap[0]
    if not hasattr(st, 'insert_position'):
      return {}
    try:
      ip, sp = np.asarray(st.insert_position), np.asarray(st.sample_position)
      d = np.asarray(st.data)
    except Exception as e:  # e.g. a state whose buffers were invalidated by the call it was passed to: an outcome, reported by
      return {'unreadable': f'{type(e).__name__}'}      # the observable checks (size of the earlier state, determinism)
    return {'ip': ip.tolist(), 'sp': sp.tolist(), 'hsize': snap[1].get('_size'),
            'ids': (d[..., 0]).astype(int).tolist()}

  def key_bytes(self, snap):
    try:
      return np.asarray(snap[0].key).tobytes()
    except Exception as e:  # pylint: disable=broad-except
      return f'unreadable {type(e).__name__}'.encode()


# ---------------------------------------------------------------- spec -> code


def _cfg(ctx, module, name, consts, invs, props, *, depth=True, view=False):
  path = os.path.join(tlc.WORK, f'{name}.cfg')
  os.makedirs(tlc.WORK, exist_ok=True)
  tlc.write_cfg(path, constants=consts, invariants=invs, properties=props,
                constraints=['DepthBound'] if depth else [], view='View' if view else None)
  return path


def _expected_drain(node, impl):
  all_, cur = list(node['all']), node['cur']
  if impl.cyclic:
    return None
  return all_[cur:]


def walk_graph(ctx, impl, nodes, edges, inits, label, sharded=False):
  """Walks every edge of the spec graph once against the real object."""
  succ = {}
  for s, d, lab in edges:
    succ.setdefault(s, []).append((d, lab))
  rep = {}
  (init,) = inits
  rep[init] = impl.init()
  stack = [init]
  nedges = 0
  order = []
  while stack:
    s = stack.pop()
    order.append(s)
    for d, lab in succ.get(s, []):
      if d not in nodes:  # successor beyond the depth bound: generated by TLC, not part of the graph
        continue
      nd = nodes[d]
      act, args = tlaval.parse_label(lab)
      nedges += 1
      nid0 = nodes[s]['next']
      case = {'cfg': label, 'path_to_source_state': nodes[s], 'action': lab}
      if act == 'Insert':
        k = args[0] * (impl.n if sharded else 1)
        ids = list(range(nid0, nid0 + k))
        snap, res = impl.insert(rep[s], ids)
        got_out = (res,)
      else:
        snap, res, ids_out = impl.sample(rep[s])
        got_out = (res,) if res != 'batch' else ('batch', tuple(ids_out) if ids_out is not None else None)
      exp_out = nd['out']
      nontrivial = False
      if act == 'SampleUniform':
        held = exp_out[1]
        # determinism: same state, same key -> same batch
        snap_b, res_b, ids_b = impl.sample(rep[s])
        if res != 'batch' or ids_out is None:
          ctx.violation(f'uniform sample failed or returned an inconsistent record: {res} {ids_out}', case,
                        {'call': 'UniformSamplingQueue.sample', 'predicate': 'bad_record'})
        elif len(held) == 0:
          ctx.violation(f'uniform queue holding nothing returned records {ids_out} that were never inserted '
                        '(no refusal)', case,
                        {'call': 'UniformSamplingQueue.sample', 'predicate': 'sample_on_empty'})
        else:
          nontrivial = len(held) > 1
          if not set(ids_out) <= set(held) or len(ids_out) != impl.batch:
            ctx.violation(f'uniform sample returned {ids_out}, held {sorted(held)}', case,
                          {'call': 'UniformSamplingQueue.sample', 'predicate': 'not_held'})
          if ids_b != ids_out:
            ctx.violation(f'uniform sample not a function of its key: {ids_out} vs {ids_b}', case,
                          {'call': 'UniformSamplingQueue.sample', 'predicate': 'nondeterministic'})
          if impl.key_bytes(snap) == impl.key_bytes(rep[s]):
            ctx.violation('uniform sample did not advance its key', case,
                          {'call': 'UniformSamplingQueue.sample', 'predicate': 'key_reuse'})
      else:
        nontrivial = (act != 'Insert' and res == 'batch') or (act == 'Insert' and nodes[s]['nops'] > 0)
        if tuple(got_out) != tuple(exp_out):
          ctx.violation(f'{lab}: returned {got_out}, specification {exp_out}', case,
                        {'call': act, 'predicate': 'return'})
      size = impl.size(snap)
      if size != nd['sz']:
        ctx.violation(f'{lab}: size() = {size}, specification {nd["sz"]}', case,
                      {'call': 'size', 'predicate': 'size'})
      # size() is a function of the state it is given: the SOURCE state still has its own size after a newer state exists
      size_src = impl.size(rep[s])
      if size_src != nodes[s]['sz']:
        ctx.violation(f'after {lab}: size() of the earlier state = {size_src}, specification {nodes[s]["sz"]}', case,
                      {'call': 'size', 'predicate': 'size_of_earlier_state'})
      # implementation-level comparison: localisation + licence for edge coverage
      it = impl.internals(snap)
      if sharded:
        exp_int = {'ip': [nd['qs'][i]['ip'] for i in range(impl.n)],
                   'sp': [nd['qs'][i]['sp'] for i in range(impl.n)], 'hsize': nd['hsize'],
                   'ids': [list(nd['qs'][i]['data']) for i in range(impl.n)]}
      else:
        exp_int = {'ip': nd['q']['ip'], 'sp': nd['q']['sp'], 'hsize': nd['hsize'], 'ids': list(nd['q']['data'])}
      if it != exp_int and not ctx.extra.get('internal_mismatch'):
        ctx.extra['internal_mismatch'] = {'cfg': label, 'action': lab, 'impl': it, 'spec': exp_int}
        ctx.note(f'internal state differs from the specification at {label} {lab} (observables decide)')
      ctx.case(key=(label, s, lab), nontrivial=nontrivial,
               sample={'cfg': label, 'from': {k: nodes[s][k] for k in ('all', 'cur', 'hsize') if k in nodes[s]},
                       'action': lab, 'returned': got_out, 'size': size} if nedges % 97 == 1 else None)
      if d not in rep:
        rep[d] = snap
        stack.append(d)
        # drain probe: read the held/available contents through the public API only
        if not sharded and impl.kind == 'queue' and not impl.cyclic:
          want = _expected_drain(nd, impl)
          got, cur_snap = [], snap
          for _ in range(impl.cap + 1):
            cur_snap, r, ids_d = impl.sample(cur_snap)
            if r != 'batch':
              break
            got += ids_d
          nfull = (len(want) // impl.batch) * impl.batch
          if got != want[:nfull]:
            ctx.violation(f'drain after {lab}: got {got}, specification {want[:nfull]}', case,
                          {'call': 'sample', 'predicate': 'drain'})
        if not sharded and impl.kind == 'queue' and impl.cyclic and len(nd['all']) >= impl.batch:
          all_, cur = list(nd['all']), nd['cur']
          want = [all_[(cur + i) % len(all_)] for i in range(2 * impl.batch)]
          got, cur_snap = [], snap
          for _ in range(2):
            cur_snap, r, ids_d = impl.sample(cur_snap)
            got += ids_d or []
          if got != want:
            ctx.violation(f'cyclic drain after {lab}: got {got}, specification {want}', case,
                          {'call': 'sample', 'predicate': 'drain'})
  if nedges == 0 or len(rep) != len(nodes):
    raise tlc.MachineryError(f'graph walk of {label} incomplete: {nedges} edges, {len(rep)}/{len(nodes)} states')
  ctx.traces += nedges
  return nedges


def model_and_walk(ctx, cap, batch, cyclic, kind, maxops, wrap=None, n=1):
  label = f'{kind}{"-cyclic" if cyclic else ""}-cap{cap}-b{batch}-d{maxops}' + (f'-{wrap}{n}' if wrap else '')
  consts = {'Cap': cap, 'Batch': batch, 'Cyclic': 'TRUE' if cyclic else 'FALSE', 'MaxOps': maxops}
  if wrap:
    module, invs, props = 'ShardedQueue', INV_SHARD, PROP_SHARD
    consts['N'] = n
  else:
    module, invs = 'ReplayQueue', INV_QUEUE
    props = PROP_QUEUE + (['UniformReturnsHeld'] if kind == 'uniform' else [])
    consts['Kind'] = f'"{kind}"'
  cfg = _cfg(ctx, module, label, consts, invs, props)
  dot = os.path.join(tlc.WORK, label + '.dot')
  res = tlc.run(module, cfg, name=label, coverage=True, dump_dot=dot, expect_ok=True, workers=4)
  ctx.add_tlc(res, label)
  need = ['Insert', 'Sample'] if wrap else ['Insert', 'SampleUniform' if kind == 'uniform' else 'SampleQueue']
  tlc.require_coverage(res, need, label)
  nodes, edges, inits = tlaval.parse_dot(dot)
  try:
    impl = Impl(cap, batch, cyclic, kind, wrap=wrap, n=n)
    return walk_graph(ctx, impl, nodes, edges, inits, label, sharded=bool(wrap))
  except BraxFailure as e:
    ctx.violation(f'{label}: {e}', {'cfg': label}, {'call': 'init', 'predicate': 'raised'})
    return 0


def closure(ctx, cap, batch, cyclic, kind, wrap=None, n=1):
  """Unbounded histories: ids renamed by age (VIEW) make the reachable graph finite."""
  label = f'closure-{kind}{"-cyclic" if cyclic else ""}-cap{cap}-b{batch}' + (f'-{wrap}{n}' if wrap else '')
  consts = {'Cap': cap, 'Batch': batch, 'Cyclic': 'TRUE' if cyclic else 'FALSE', 'MaxOps': 0}
  if wrap:
    module, invs, props = 'ShardedQueue', INV_SHARD, PROP_SHARD
    consts['N'] = n
  else:
    module, invs = 'ReplayQueue', INV_QUEUE
    props = PROP_QUEUE + (['UniformReturnsHeld'] if kind == 'uniform' else [])
    consts['Kind'] = f'"{kind}"'
  cfg = _cfg(ctx, module, label, consts, invs, props, depth=False, view=True)
  res = tlc.run(module, cfg, name=label, expect_ok=True, workers=4)
  ctx.add_tlc(res, label)


def k3_counterexample(ctx):
  """The design-level counterexample to UniformSampleNonEmpty, confirmed on the real code by the walk."""
  label = 'uniform-empty-design'
  consts = {'Cap': 2, 'Batch': 1, 'Cyclic': 'FALSE', 'MaxOps': 2, 'Kind': '"uniform"'}
  cfg = _cfg(ctx, 'ReplayQueue', label, consts, [], ['UniformSampleNonEmpty'])
  res = tlc.run('ReplayQueue', cfg, name=label, workers=1)
  ctx.extra['uniform_empty_design_counterexample'] = res.violated == 'UniformSampleNonEmpty'


# ---------------------------------------------------------------- code -> spec


def random_traces(ctx, r, ntraces, length, configs):
  """Random histories on real objects, grouped by config and validated by the trace specs."""
  for ci, (cap, batch, cyclic, kind, wrap, n) in enumerate(configs):
    impl = Impl(cap, batch, cyclic, kind, wrap=wrap, n=n, rich=True)
    traces = []
    for t in range(ntraces):
      snap = impl.init()
      nxt = 0 if wrap else 1
      evs = []
      for _ in range(length):
        if r.random() < 0.5:
          kmax = cap + (1 if r.random() < 0.1 else 0)
          k = r.randint(1, kmax)
          tot = k * n
          snap, res = impl.insert(snap, list(range(nxt, nxt + tot)))
          if res == 'ok':
            nxt += tot
          evs.append({'op': 'insert', 'k': k, 'res': res, 'size': impl.size(snap)})
        else:
          before = snap
          snap, res, ids = impl.sample(snap)
          ev = {'op': 'sample', 'res': res, 'ids': ids or [], 'size': impl.size(snap)}
          if ids is None and res == 'batch':
            ev['res'] = 'corrupt-record'
          if kind == 'uniform':
            _, _, ids2 = impl.sample(before)
            ev['digest'] = ids or []
            ev['again'] = ids2 or []
            ev['keybefore'] = list(impl.key_bytes(before))
            ev['keyafter'] = list(impl.key_bytes(snap))
            if len(impl.internals(before)['ids']) and impl.internals(before)['ip'] == 0:
              # sampling an empty uniform queue: known finding K3, keep it out of the random traces
              evs.append(None)
              continue
          evs.append(ev)
      if None in evs:
        evs = evs[:evs.index(None)]
      traces.append(evs)
    label = f'trace-{kind}{"-cyclic" if cyclic else ""}-cap{cap}-b{batch}' + (f'-{wrap}{n}' if wrap else '')
    tf = os.path.join(tlc.WORK, label + '.json')
    with open(tf, 'w') as f:
      json.dump(traces, f)
    consts = {'Cap': cap, 'Batch': batch, 'Cyclic': 'TRUE' if cyclic else 'FALSE', 'MaxOps': 0}
    if wrap:
      module = 'ShardedQueueTrace'
      consts['N'] = n
    else:
      module = 'ReplayQueueTrace'
      consts['Kind'] = f'"{kind}"'
    cfg = os.path.join(tlc.WORK, label + '.cfg')
    tlc.write_cfg(cfg, init='TraceInit', next_='TraceNext', constants=consts, constraints=['Progress'],
                  postcondition='AllAccepted')
    res = tlc.run(module, cfg, name=label, workers=1, env={'TRACE_FILE': tf})
    ctx.add_tlc(res, label)
    rejected = {}
    if not res.ok:
      rejected = tlc.parse_rejects(res, label)
    for t, evs in enumerate(traces):
      ctx.traces += 1
      ctx.case(key=(label, t), nontrivial=any(e['op'] == 'sample' and e['res'] == 'batch' for e in evs),
               sample={'cfg': label, 'events': evs[:6]} if t == 0 else None)
      if (t + 1) in rejected:
        at = rejected[t + 1]
        ctx.violation(f'{label}: recorded history is not a behaviour of the specification; rejected at event {at}: '
                      f'{evs[at - 1] if 0 < at <= len(evs) else None}',
                      {'cfg': label, 'events': evs, 'rejected_at': at},
                      {'call': 'history', 'predicate': 'trace_rejected'})


def foreign_dtype(ctx):
  """Records whose dtype differs from the queue's storage: the insert is either refused (and the queue keeps working) or
  accepted FAITHFULLY - what is sampled later is exactly what was inserted.  Silent rounding is neither."""
  jax, jnp, rb = _jax()
  cases = [('int32 storage, float32 records', jnp.int32, np.array([0.5, 1.5, 2.5], np.float32), np.array([4, 5, 6], np.int32)),
           ('float32 storage, int32 records above 2^24', jnp.float32, np.array([16777217, 16777219, 33554433], np.int32),
            np.array([4.0, 5.0, 6.0], np.float32)),
           ('float16 storage, float32 records', jnp.float16, np.array([0.1, 2049.0, 70000.0], np.float32),
            np.array([4.0, 5.0, 6.0], np.float16))]
  n = 0
  for what, sdt, foreign, native in cases:
    for kind in ('queue', 'cyclic', 'uniform'):
      dummy = {'id': jnp.zeros((), sdt)}
      buf = rb.UniformSamplingQueue(6, dummy, 3) if kind == 'uniform' else rb.Queue(6, dummy, 3, cyclic=(kind == 'cyclic'))
      case = {'what': what, 'queue': kind, 'foreign_records': foreign.tolist()}
      n += 1
      ctx.traces += 1
      ctx.case(key=('foreign', what, kind), nontrivial=True)
      try:
        st = buf.init(jax.random.PRNGKey(0))
        try:
          st2 = buf.insert(st, {'id': jnp.asarray(foreign)})
          accepted = True
        except Exception:  # pylint: disable=broad-except
          accepted, st2 = False, st
        if accepted:
          _, batch = buf.sample(st2)
          got = np.asarray(batch['id']).astype(np.float64)
          if not set(got.tolist()) <= set(foreign.astype(np.float64).tolist()):
            ctx.violation(f'{kind} queue, {what}: the insert was accepted but sampling returns {got.tolist()}, which were never '
                          f'inserted ({foreign.tolist()})', case, {'call': 'insert', 'predicate': 'unfaithful_dtype'})
            continue
        else:
          # refused: the queue must still take and return native records
          st3 = buf.insert(st2, {'id': jnp.asarray(native)})
          _, batch = buf.sample(st3)
          got = np.asarray(batch['id']).astype(np.float64)
          want = native.astype(np.float64).tolist()
          if (kind == 'uniform' and not set(got.tolist()) <= set(want)) or (kind != 'uniform' and got.tolist() != want):
            ctx.violation(f'{kind} queue, {what}: after a refused insert the queue returns {got.tolist()} for {native.tolist()}',
                          case, {'call': 'insert', 'predicate': 'refusal_side_effect'})
      except Exception as e:  # pylint: disable=broad-except
        ctx.violation(f'{kind} queue, {what}: {type(e).__name__}: {str(e)[:200]}', case, {'call': 'insert', 'predicate': 'raised'})
  ctx.extra['foreign_dtype_cases'] = n


# ---------------------------------------------------------------- entry points


def run(ctx):
  r = core.rng(ctx)
  quick = ctx.quick
  caps = [1, 2, 3] if quick else [1, 2, 3, 4, 5]
  batches = [1, 2] if quick else [1, 2, 3, 4]
  depth = 6 if quick else 7
  ctx.rule = ('spec->code: every edge of the TLC state graph of ReplayQueue/ShardedQueue (all op sequences up to the '
              'depth bound over insert k in 1..Cap+1 and sample) executed on the real object, comparing return value, '
              'exception, size() and a drain probe; non-trivial = a successful sample or an insert into a non-empty '
              'history. code->spec: random histories with pytree records validated by the trace specifications; '
              'non-trivial = contains a successful sample.')
  ctx.assumptions = [
      'record ids are consecutive integers carried in the record payload; all leaves of a returned record must agree',
      'edge coverage stands for path coverage because the implementation state (ReplayBufferState + host counter) '
      'is compared with the specification state after every edge and the API is a deterministic function of it',
      'use of insert/sample inside a user jit (check_can_* run once at trace time) is outside the property',
  ]
  nedges = 0
  for cap, batch, cyclic in itertools.product(caps, batches, [False, True]):
    nedges += model_and_walk(ctx, cap, batch, cyclic, 'queue', depth)
    closure(ctx, cap, batch, cyclic, 'queue')
  for cap, batch in itertools.product(caps, batches):
    nedges += model_and_walk(ctx, cap, batch, False, 'uniform', depth - 1)
    closure(ctx, cap, batch, False, 'uniform')
  k3_counterexample(ctx)
  foreign_dtype(ctx)
  shard_cfgs = [(2, 1, False, 'pmap', 2), (2, 2, True, 'pjit', 2), (3, 2, False, 'pjit', 2), (2, 2, False, 'pjity', 2)] if quick else \
      [(c, b, cy, w, n) for c in (1, 2, 3) for b in (1, 2) for cy in (False, True)
       for w, n in (('pmap', 2), ('pjit', 2), ('pjit', 3), ('pmap', 4), ('pjit', 4), ('pjity', 2))]
  for cap, batch, cyclic, wrap, n in shard_cfgs:
    nedges += model_and_walk(ctx, cap, batch, cyclic, 'queue', 5 if quick else 6, wrap=wrap, n=n)
    closure(ctx, cap, batch, cyclic, 'queue', wrap=wrap, n=n)
  ctx.extra['graph_edges_replayed'] = nedges
  big = [(r.randint(6, 64), None, cy, kind, w, n) for cy, kind, w, n in
         [(False, 'queue', None, 1), (True, 'queue', None, 1), (False, 'uniform', None, 1),
          (False, 'queue', 'pjit', 2), (True, 'queue', 'pmap', 2), (False, 'queue', 'pjit', 4)]]
  big = [(c, r.randint(1, max(1, c // 2)), cy, kind, w, n) for c, _, cy, kind, w, n in big]
  random_traces(ctx, r, 30 if quick else 800, 40, big)
  ctx.exhaustive = False


def replay(ctx, path):
  with open(path) as f:
    body = json.load(f)
  print(json.dumps(body, indent=1)[:4000])
  ctx.note('replay: re-running the full tier to reproduce (cases are deterministic given the seed)')
  ctx.seed = body.get('seed', ctx.seed)
  ctx.tier = body.get('tier', ctx.tier)
  ctx.quick = ctx.tier == 'quick'
  run(ctx)
