"""X04 (coverage beyond the listed properties): the fitness shaping of the evolution-strategies trainer
(es/train.py centered_rank, wierstra) equals FitnessShaping.tla for every fitness vector over a small value set."""
from __future__ import annotations

import math
import os

import numpy as np

from harness import shim, tlaval, tlc

INVS = ['AlgorithmicIsDefinitional', 'RankIsPermutation', 'OrderPreserving', 'CenteredSymmetric', 'AffineInvariant', 'BestIsFirst']


def run(ctx):
  shim.install()
  import jax
  jax.config.update('jax_enable_x64', True)
  import jax.numpy as jnp
  from brax.training.agents.es import train as es
  cfg = os.path.join(tlc.WORK, 'x04.cfg')
  os.makedirs(tlc.WORK, exist_ok=True)
  tlc.write_cfg(cfg, constants={'MaxN': 5 if ctx.quick else 6, 'Vals': '{0, 1, 2, 3}' if ctx.quick else '{0, 1, 2, 3}'}, invariants=INVS)
  dump = os.path.join(tlc.WORK, 'x04')
  res = tlc.run('FitnessShaping', cfg, name='x04', dump=dump, expect_ok=True, coverage=True)
  tlc.require_coverage(res, ['Compute'], 'x04')
  ctx.add_tlc(res, 'FitnessShaping.tla')
  ctx.rule = ('every fitness vector of length 2..5 (6) over {0,1,2,3} (ties included): centered_rank must equal (2 rank - (n-1)) / '
              '(2 (n-1)) exactly and wierstra the normalised log utilities of the specification\'s positions to 1e-12; the same '
              'vectors under the increasing map 2.5 x - 7 are replayed too. non-trivial = a vector with a tie.')
  cr = jax.jit(es.centered_rank)
  wi = jax.jit(es.wierstra)
  k = 0
  for s in tlaval.parse_dump(dump + '.dump'):
    if s['out'] == ():
      continue
    x = np.array(s['x'], float)
    n = len(x)
    o = s['out']
    want_c = np.array([c / (2.0 * (n - 1)) for c in o['centered2']])
    u = np.array([max(0.0, math.log(n / 2.0 + 1) - math.log(p)) for p in o['wpos']])
    want_w = u / u.sum() - 1.0 / n
    for xs in (x, 2.5 * x - 7.0):
      k += 1
      try:
        got_c, got_w = np.asarray(cr(jnp.asarray(xs))), np.asarray(wi(jnp.asarray(xs)))
      except Exception as e:  # pylint: disable=broad-except
        ctx.violation(f'fitness shaping raised on {xs.tolist()}: {type(e).__name__}: {str(e)[:200]}', {'x': xs.tolist()},
                      {'call': 'es.shaping', 'predicate': 'raised'})
        continue
      ctx.traces += 1
      ctx.case(key=tuple(xs.tolist()), nontrivial=len(set(x.tolist())) < n,
               sample={'x': xs.tolist(), 'centered_rank': want_c.tolist(), 'wierstra': want_w.tolist()} if k == 400 else None)
      if got_c.shape != want_c.shape or np.max(np.abs(got_c - want_c)) > 1e-15:
        ctx.violation(f'centered_rank({xs.tolist()}) = {got_c.tolist()}, specification {want_c.tolist()}', {'x': xs.tolist()},
                      {'call': 'es.centered_rank', 'predicate': 'value'})
      elif got_w.shape != want_w.shape or not np.max(np.abs(got_w - want_w)) <= 1e-12:
        ctx.violation(f'wierstra({xs.tolist()}) = {got_w.tolist()}, specification {want_w.tolist()}', {'x': xs.tolist()},
                      {'call': 'es.wierstra', 'predicate': 'value'})


def replay(ctx, path):
  run(ctx)
