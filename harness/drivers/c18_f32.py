"""float32 pass of C18 (separate process: jax_enable_x64 is process-global).

Replays RunningStats.tla states under a NON-dyadic affine rendering x -> a*x + b in default float32, where rounding is
real: expected values come from the specification (exact rationals) mapped through the same affine map (AffineLemma);
comparison is at float32 accuracy.  Catches what only shows up under rounding (negative summed variance -> NaN std)."""
import json
import math
import random
import re
import sys
from fractions import Fraction


def main():
  dump, n, seed, lo, hi = sys.argv[1], int(sys.argv[2]), int(sys.argv[3]), float(sys.argv[4]), float(sys.argv[5])
  sys.path.insert(0, __import__('os').path.dirname(__import__('os').path.dirname(__import__('os').path.dirname(
      __import__('os').path.abspath(__file__)))))
  from harness import tlaval
  import numpy as np
  import jax.numpy as jnp
  from brax.training.acme import running_statistics as rs
  r = random.Random(seed)
  with open(dump) as f:
    blocks = re.split(r'^State \d+:\n', f.read(), flags=re.M)[1:]
  blocks = [b for b in blocks if 'hist = <<>>' not in b]
  r.shuffle(blocks)
  # prefer states with a constant column (all positive-weight samples equal): that is where rounding bites
  out = {'evaluated': 0, 'constant_columns': 0, 'violations': []}
  for b in blocks:
    if out['evaluated'] >= n:
      break
    st = tlaval.parse_state(b.strip())
    F = len(st['mean'])
    a = r.choice([0.1, 0.7, 1.0 / 3.0, 1.0])
    c = r.choice([0.1, 1.0 / 3.0, 0.7, 731.3, -0.3])
    state = rs.init_state(jnp.zeros((F,)))
    for (kind, batch) in st['hist']:
      xs = np.array([[a * s['x'][f] + c for f in range(F)] for s in batch], np.float32)
      ws = np.array([s['w'] for s in batch], np.float32)
      state = rs.update(state, jnp.asarray(xs), weights=jnp.asarray(ws), std_min_value=lo, std_max_value=hi)
    out['evaluated'] += 1
    mean, std, m2 = np.asarray(state.mean), np.asarray(state.std), np.asarray(state.summed_variance)
    bad = []
    for f in range(F):
      em = a * float(Fraction(*st['mean'][f])) + c
      ev = a * a * float(Fraction(*st['exp']['var'][f]))
      mag = abs(c) + abs(a) * 2
      if not np.isfinite(mean[f]) or not np.isfinite(std[f]):
        bad.append(f'non-finite statistics: mean[{f}]={mean[f]} std[{f}]={std[f]} summed_variance={m2[f]}')
        continue
      if abs(mean[f] - em) > 1e-4 * mag:
        bad.append(f'mean[{f}] {mean[f]} != {em}')
      want = min(max(math.sqrt(ev), lo), hi)
      if ev == 0:
        out['constant_columns'] += 1
        if not (lo <= std[f] <= lo + 2e-3 * mag + 8 * 1.2e-7 * mag * mag / max(lo, 1e-3 * mag)):
          bad.append(f'constant column: std[{f}] {std[f]} not within rounding of the minimum {lo}')
      elif abs(std[f] - want) > 2e-3 * want + 8 * 1.2e-7 * mag * mag / max(want, 1e-3 * mag):   # float32 cancellation at offset c
        bad.append(f'std[{f}] {std[f]} != {want}')
    if bad:
      out['violations'].append({'what': '; '.join(bad[:3]), 'a': a, 'c': c,
                                'history': [[k, [[list(s['x']), s['w']] for s in bt]] for k, bt in st['hist']]})
  print('RESULT ' + json.dumps(out))


if __name__ == '__main__':
  main()
