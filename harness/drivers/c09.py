"""C09 — spatial algebra laws.  SpatialAlgebra.tla (integers; grid-exhaustive = proof of polynomial identities) and
SpatialRat.tla (unit quaternions / inertia / constructors over exact rationals) are model-checked; every computed state
carries the expected value of every primitive, which the real brax.math / brax.base functions must reproduce exactly."""
from __future__ import annotations

import json
import math as pymath
import os
import re
from fractions import Fraction

import numpy as np

from harness import core, tlaval, tlc

INT_INVS = ['QuatMulAssociative', 'QuatNormMultiplicative', 'QuatInverse', 'RotateByProductIsSuccessive',
            'RotateAgreesWithMatrix', 'RotateInverse', 'TransformAssociative', 'TransformIdentity', 'TransformInverse',
            'PowerIsFrameIndependent', 'MotionRoundTrip', 'CrossAntisymmetric', 'CrossDual', 'WideMatrix']
RAT_INVS = ['UnitQuaternions', 'RotationOrthogonal', 'ToLocalInvertsDo', 'InertiaTransportPreservesEnergy',
            'EulerIsAxisProduct', 'FromToRotates']


def done_states(dump):
  with open(dump) as f:
    txt = f.read()
  for block in re.split(r'^State \d+:\n', txt, flags=re.M)[1:]:
    if 'done = TRUE' in block:
      yield tlaval.parse_state(block.strip())


def arr(xs):
  return np.asarray(xs, np.float64)


def _tr(base, recs):
  import jax.numpy as jp
  return base.Transform(pos=jp.asarray(arr([r['pos'] for r in recs])), rot=jp.asarray(arr([r['rot'] for r in recs])))


def _mo(cls, recs):
  import jax.numpy as jp
  return cls(ang=jp.asarray(arr([r['ang'] for r in recs])), vel=jp.asarray(arr([r['vel'] for r in recs])))


def replay_int(ctx, states):
  import jax
  jax.config.update('jax_enable_x64', True)
  import jax.numpy as jp
  from brax import base, math
  by = {}
  for s in states:
    by.setdefault(s['fam'], []).append(s)
  vm = jax.vmap

  def check(fam, name, got, want_list, states_f, tol=0.0, scale=None):
    got = np.asarray(got)
    want = arr(want_list)
    if got.shape != want.shape:
      raise tlc.MachineryError(f'{fam}.{name}: shape {got.shape} vs {want.shape}')
    err = np.abs(got - want)
    lim = tol * (1 + np.abs(want)) if tol else 0.0
    bad = np.argwhere(err > lim)
    if len(bad):
      i = int(bad[0][0])
      ctx.violation(f'{fam}: {name} returned {got[i].tolist()} but the specification computes {want[i].tolist()} '
                    f'for input {states_f[i]["inp"]}', {'family': fam, 'primitive': name, 'input': states_f[i]['inp'],
                                                        'got': got[i].tolist(), 'want': want[i].tolist()},
                    {'call': name, 'predicate': 'value'})

  for fam, ss in sorted(by.items()):
    I = lambda k: jp.asarray(arr([s['inp'][k] for s in ss]))
    R = lambda k: [s['res'][k] for s in ss]
    if fam == 'qassoc':
      p, q, r = I('p'), I('q'), I('r')
      qm = vm(math.quat_mul)
      check(fam, 'quat_mul(p,q)', qm(p, q), R('pq'), ss)
      check(fam, 'quat_mul(q,r)', qm(q, r), R('qr'), ss)
      check(fam, 'quat_mul(quat_mul(p,q),r)', qm(qm(p, q), r), R('pq_r'), ss)
      check(fam, 'quat_mul(p,quat_mul(q,r))', qm(p, qm(q, r)), R('p_qr'), ss)
    elif fam == 'qnorm':
      p, q = I('p'), I('q')
      qm = vm(math.quat_mul)
      check(fam, 'quat_mul(p,q)', qm(p, q), R('pq'), ss)
      check(fam, 'quat_inv(q)', vm(math.quat_inv)(q), R('qinv'), ss)
      check(fam, 'quat_mul(q,quat_inv(q))', qm(q, vm(math.quat_inv)(q)), R('q_qinv'), ss)
      check(fam, 'vec_quat_mul(p[1:],q)', vm(math.vec_quat_mul)(p[:, 1:], q), R('vq'), ss)
      check(fam, 'relative_quat(q,p)=p*inv(q)', vm(math.relative_quat)(q, p),
            [list(x) for x in np.asarray(qm(p, vm(math.quat_inv)(q)))], ss)
    elif fam == 'rotcomp':
      p, q, v = I('p'), I('q'), I('v')
      rot = vm(math.rotate)
      check(fam, 'rotate(v,q)', rot(v, q), R('rot_q'), ss)
      check(fam, 'rotate(v,quat_mul(p,q))', rot(v, vm(math.quat_mul)(p, q)), R('rot_pq'), ss)
      check(fam, 'rotate(rotate(v,q),p)', rot(rot(v, q), p), R('rot_q_p'), ss)
      check(fam, 'inv_rotate(rotate(v,q),q)', vm(math.inv_rotate)(rot(v, q), q), R('back'), ss)
      nz = [i for i, s in enumerate(ss) if s['res']['nq'] != 0]
      qn = q[np.asarray(nz)]
      m3 = np.asarray(vm(math.quat_to_3x3)(qn)) * arr([ss[i]['res']['nq'] for i in nz])[:, None, None]
      check(fam, 'quat_to_3x3(q)*|q|^2', m3, [ss[i]['res']['m3q'] for i in nz], [ss[i] for i in nz], tol=1e-12)
    elif fam == 'tassoc':
      a, b, c = (_tr(base, [s['inp'][k] for s in ss]) for k in 'abc')
      do = vm(lambda x, y: x.do(y))
      for name, got, key in [('a.do(b)', do(a, b), 'ab'), ('b.do(c)', do(b, c), 'bc'),
                             ('a.do(b).do(c)', do(do(a, b), c), 'ab_c'), ('a.do(b.do(c))', do(a, do(b, c)), 'a_bc'),
                             ('zero.do(a)', vm(lambda y: base.Transform.zero().do(y))(a), 'id_a'),
                             ('a.do(zero)', vm(lambda x: x.do(base.Transform.zero()))(a), 'a_id'),
                             ('a.do(b).to_local(a)', vm(lambda x, y: x.do(y).to_local(x))(a, b), 'loc')]:
        check(fam, name + '.pos', got.pos, [r[key]['pos'] for r in (s['res'] for s in ss)], ss)
        check(fam, name + '.rot', got.rot, [r[key]['rot'] for r in (s['res'] for s in ss)], ss)
    elif fam in ('dual', 'wide'):
      t = _tr(base, [s['inp']['t'] for s in ss])
      m = _mo(base.Motion, [s['inp']['m'] for s in ss])
      f = _mo(base.Force, [s['inp']['f'] for s in ss])
      tm = vm(lambda x, y: x.do(y))(t, m)
      tf = vm(lambda x, y: x.do(y))(t, f)
      for nm, got, key in [('t.do(Motion)', tm, 'tm'), ('t.do(Force)', tf, 'tf')]:
        check(fam, nm + '.ang', got.ang, [s['res'][key]['ang'] for s in ss], ss)
        check(fam, nm + '.vel', got.vel, [s['res'][key]['vel'] for s in ss], ss)
      check(fam, 'm.dot(t.do(f))', vm(lambda x, y: x.dot(y))(m, tf), R('p_out'), ss)
      check(fam, 't.do(m).dot(f)', vm(lambda x, y: x.dot(y))(tm, f), R('p_in'), ss)
      if fam == 'dual':
        ti = vm(lambda x, y: x.inv_do(y))(t, m)
        check(fam, 't.inv_do(Motion).ang', ti.ang, [s['res']['tinv']['ang'] for s in ss], ss)
        check(fam, 't.inv_do(Motion).vel', ti.vel, [s['res']['tinv']['vel'] for s in ss], ss)
        rd = vm(lambda x, y: x.inv_do(x.do(y)))(t, m)
        check(fam, 't.inv_do(t.do(m)).ang', rd.ang, [s['res']['round']['ang'] for s in ss], ss)
        check(fam, 't.inv_do(t.do(m)).vel', rd.vel, [s['res']['round']['vel'] for s in ss], ss)
      else:
        u = _tr(base, [s['inp']['u'] for s in ss])
        tu = vm(lambda x, y: x.do(y))(t, u)
        check(fam, 't.do(u).pos', tu.pos, [s['res']['tu']['pos'] for s in ss], ss)
        check(fam, 't.do(u).rot', tu.rot, [s['res']['tu']['rot'] for s in ss], ss)
        mf = vm(lambda x, y: x.cross(y))(m, f)
        check(fam, 'm.cross(Force).ang', mf.ang, [s['res']['mf']['ang'] for s in ss], ss)
        check(fam, 'm.cross(Force).vel', mf.vel, [s['res']['mf']['vel'] for s in ss], ss)
        check(fam, 'rotate(m.ang,t.rot)', vm(math.rotate)(m.ang, t.rot), R('rot'), ss)
    elif fam == 'cross':
      m = _mo(base.Motion, [s['inp']['m'] for s in ss])
      n = _mo(base.Motion, [s['inp']['n'] for s in ss])
      f = _mo(base.Force, [s['inp']['f'] for s in ss])
      cr = vm(lambda x, y: x.cross(y))
      for nm, got, key in [('m.cross(m)', cr(m, m), 'mm'), ('m.cross(n)', cr(m, n), 'mn'), ('n.cross(m)', cr(n, m), 'nm'),
                           ('m.cross(Force)', cr(m, f), 'mf')]:
        check(fam, nm + '.ang', got.ang, [s['res'][key]['ang'] for s in ss], ss)
        check(fam, nm + '.vel', got.vel, [s['res'][key]['vel'] for s in ss], ss)
      check(fam, 'n.dot(m.cross(f))', vm(lambda x, y: x.dot(y))(n, cr(m, f)), R('lhs'), ss)
      check(fam, '-(m.cross(n)).dot(f)', -vm(lambda x, y: x.dot(y))(cr(m, n), f), R('rhs'), ss)
    else:
      raise tlc.MachineryError(f'unknown family {fam}')
    for s in ss:
      nontriv = any(x != 0 for x in _flat(s['inp']))
      ctx.case(key=(fam, _freeze(s['inp'])), nontrivial=nontriv,
               sample={'family': fam, 'input': s['inp'], 'expected': s['res']} if len(ctx.samples) < 5 and nontriv and
               hash(str(s['inp'])) % 50 == 0 else None)
    ctx.traces += len(ss)
    ctx.extra.setdefault('states_replayed_per_family', {})[fam] = len(ss)


def _flat(v):
  if isinstance(v, dict):
    for x in v.values():
      yield from _flat(x)
  elif isinstance(v, (list, tuple)):
    for x in v:
      yield from _flat(x)
  else:
    yield v


def _freeze(v):
  return json.dumps(core._jsonable(v), sort_keys=True)


def run_int(ctx):
  cfg = os.path.join(tlc.WORK, 'c09-int.cfg')
  os.makedirs(tlc.WORK, exist_ok=True)
  fams = '{"qassoc", "qnorm", "rotcomp", "tassoc", "dual", "cross", "wide"}'
  tlc.write_cfg(cfg, constants={'Families': fams, 'NSample': 2000 if ctx.quick else 60000, 'SeedBase': core.seed_base(ctx, 9)}, invariants=INT_INVS)
  dump = os.path.join(tlc.WORK, 'c09-int')
  res = tlc.run('SpatialAlgebra', cfg, name='c09-int', dump=dump, seed=ctx.seed + 5, expect_ok=True, coverage=True)
  tlc.require_coverage(res, ['Compute'], 'c09-int')
  ctx.add_tlc(res, 'SpatialAlgebra integer families')
  replay_int(ctx, list(done_states(dump + '.dump')))


def run(ctx):
  ctx.rule = ('TLC enumerates each law family on a grid with more points per variable than the per-variable degree '
              '(exhaustive for quaternion associativity {0,1}^12, norm {-1,0,1}^8, rotation composition '
              '{-1,0,1}^8 x {0,1}^3; sampled for the larger transform/motion/force families and the [-9,9] lattice) and '
              'checks the laws; every computed state is replayed: the brax primitive must return exactly the integers '
              'the specification computed (float64 is exact there). non-trivial = input not all zero.')
  ctx.assumptions = ['code = specification on a grid larger than the degree implies the same polynomial, provided the '
                     'code is a polynomial of that degree (true of any coefficient/sign/term mutation)',
                     'rotate(v, q) for non-unit q equals |q|^2 R(q) v; normalising functions are compared after '
                     'multiplying out |q|^2 (tolerance 1e-12)']
  run_int(ctx)
  from harness.drivers import c09_rat
  c09_rat.run_rat(ctx)
  ctx.exhaustive = False


def replay(ctx, path):
  with open(path) as f:
    body = json.load(f)
  print(json.dumps(body, indent=1)[:3000])
  ctx.seed, ctx.tier = body.get('seed', ctx.seed), body.get('tier', ctx.tier)
  ctx.quick = ctx.tier == 'quick'
  run(ctx)
