"""C04 — internal forces obey Newton's first and third laws (spring and positional pipelines), and rest stays rest.

Momentum.tla checks the bookkeeping design on every small forest; real rollouts on free-rooted ModelSpace models and on
two-body collision scenes are projected to integer residuals and accepted/rejected by MomentumTrace.tla."""
from __future__ import annotations

import json
import os

import numpy as np

from harness import core, par, phys, render, tlaval, tlc

EPS = 1000           # units of 1e-12 relative: 1e-9


def quant(x, unit=1e-12):
  if not np.isfinite(x):
    return 2**30
  return int(max(-2**30, min(2**30, round(x / unit))))


def free_rooted(model):
  return all(l['root'] == 'free' for l in model['links'] if l['parent'] == 0)


SUPPORTED_PATTERNS = {'H', 'S', 'HH', 'SS', 'HHH', 'SSS', 'SH', 'SSH'}


def stack_class(model):
  """'supported' iff every stack has mutually orthogonal axes and is of one joint kind or slides followed by one hinge
  (the class the maximal-coordinate pipelines' joint frames are built for, cf. C08); else 'outside_supported'."""
  for l in model['links']:
    if l['root'] == 'free':
      continue
    pat = ''.join(j['kind'] for j in l['stack'])
    if pat not in SUPPORTED_PATTERNS or not (1 <= l['axisset'] <= 10):
      return 'outside_supported'
  return 'supported'


def random_acts(model, r):
  sites = [(i, j) for i, l in enumerate(model['links'], 1) if l['root'] != 'free' for j in range(1, len(l['stack']) + 1)]
  acts = []
  for _ in range(r.randint(0, 3) if sites else 0):
    i, j = r.choice(sites)
    kind = r.choice(['motor', 'position', 'velocity'])
    a = {'kind': kind, 'link': i, 'j': j, 'gear': r.choice([1.0, 2.0, -1.5])}
    if kind == 'position':
      a['kp'] = r.choice([1.0, 5.0])
    if kind == 'velocity':
      a['kv'] = r.choice([0.5, 2.0])
    if r.random() < 0.4:
      a['ctrlrange'] = (-1.0, 1.0)
    acts.append(a)
  return acts


def scene_options(r):
  """brax's own scene options (custom numerics).  None of them is an external force on the system as a whole: angular
  damping acts on spin only, the spring pipeline's mass / inertia scaling changes the effective masses the momentum is
  measured with, the rest tune internal constraint forces.  (Global LINEAR damping stays at its default 0: the property
  excludes it.)"""
  o = {}
  if r.random() < 0.5:
    o['ang_damping'] = r.choice([0.5, 3.0, -1.0])
  if r.random() < 0.4:
    o['spring_mass_scale'] = r.choice([0.3, 0.5, 1.0])
  if r.random() < 0.3:
    o['spring_inertia_scale'] = r.choice([0.5, 1.0])
  if r.random() < 0.3:
    o['joint_scale_pos'] = r.choice([0.3, 0.8])
    o['joint_scale_ang'] = r.choice([0.1, 0.4])
  if r.random() < 0.3:
    o['constraint_stiffness'] = r.choice([500.0, 8000.0])
    o['constraint_vel_damping'] = r.choice([0.0, 5.0])
    o['constraint_ang_damping'] = r.choice([0.0, 2.0])
  if r.random() < 0.2:
    o['collide_scale'] = r.choice([0.5, 0.8])
  return o


def collision_scene(r):
  """Two free bodies (sphere / capsule) approaching each other, no ground: contacts are body-body only."""
  def geom(k):
    if r.random() < 0.5:
      return f'<geom name="g{k}" type="sphere" size="{r.uniform(0.08, 0.2):.3f}" mass="{r.uniform(0.5, 3):.3f}"/>'
    return (f'<geom name="g{k}" type="capsule" size="{r.uniform(0.06, 0.12):.3f} {r.uniform(0.1, 0.25):.3f}" '
            f'mass="{r.uniform(0.5, 3):.3f}"/>')
  d = r.uniform(0.25, 0.5)
  xml = ('<mujoco><compiler angle="radian"/><option gravity="0 0 -9.81" timestep="0.002"/>'
         f'<custom><numeric name="elasticity" data="{r.uniform(0, 0.8):.2f}"/>'
         + ''.join(f'<numeric name="{k}" data="{v!r}"/>' for k, v in scene_options(r).items()) + '</custom><worldbody>'
         f'<body name="a" pos="0 0 1"><freejoint/>{geom(1)}</body>'
         f'<body name="b" pos="{d:.3f} {r.uniform(-0.05, 0.05):.3f} {1 + r.uniform(-0.05, 0.05):.3f}"><freejoint/>{geom(2)}</body>'
         '</worldbody></mujoco>')
  v = r.uniform(0.5, 3.0)
  qd = [v, 0, 0, r.uniform(-1, 1), r.uniform(-1, 1), r.uniform(-1, 1), -v * r.uniform(0.2, 1), 0, 0, 0, 0, r.uniform(-2, 2)]
  return xml, qd


def momentum_events(r_out, free, touches):
  P = np.array(r_out['P'])
  M, dt, g = r_out['mass'][0], r_out['dt'], np.array(r_out['gravity'])
  vel = np.array(r_out['vel'])
  evs = []
  for t in range(1, len(P)):
    dP = P[t] - P[t - 1] - M * g * dt
    scale = M * np.linalg.norm(g) * dt + np.linalg.norm(P[t]) + np.linalg.norm(P[t - 1]) + M * 1e-3
    div = int(not np.all(np.isfinite(P[t])) or np.max(np.abs(vel[t])) > 1e6)
    evs.append({'kind': 'momentum', 'free_rooted': int(free), 'touches_world': int(touches), 'diverged': div,
                'res': [quant(x / scale) for x in dP], 'at_rest': 0, 'no_gravity': 0, 'no_ctrl': 0, 'no_contact': 0,
                'inside_limits': 0, 'dq': 0, 'dqd': 0})
    if div:
      break
  return evs


def run(ctx):
  q = ctx.quick
  r = core.rng(ctx, 4)
  ctx.rule = ('design: Momentum.tla on every forest <= 3 (4) links with impulses from {-2,1,3}; binding: free-rooted ModelSpace '
              'models (any stacks, limits, motor/position/velocity actuators, random bounded control sequences) and two-body '
              'sphere/capsule collision scenes, 50 (200) steps of the spring and positional pipelines; per-step residual '
              '|dP - M g dt| relative to the momentum scale must stay below 1e-9; rest cases on all models, 3 pipelines. '
              'non-trivial = a model with at least one joint, or a scene where a contact impulse occurred.')
  ctx.assumptions = ['global velocity damping at its default 0', 'scenes where one link touches several others are not generated '
                     '(per-link impulse averaging makes the net impulse non-zero by construction)',
                     'a rollout that blows up (non-finite or |v| > 1e6) is counted as diverged from that step on']
  os.makedirs(tlc.WORK, exist_ok=True)
  cfg = os.path.join(tlc.WORK, 'c04-design.cfg')
  tlc.write_cfg(cfg, constants={'N': 3 if q else 4, 'Forces': '<- ForceSet', 'MaxStages': 4}, invariants=['MomentumLaw'],
                constraints=['Bound'])
  res = tlc.run('Momentum', cfg, name='c04-design', expect_ok=True, coverage=True)
  tlc.require_coverage(res, ['JointStage', 'ContactStage', 'GravityStage'], 'c04-design')
  ctx.add_tlc(res, 'Momentum.tla design')
  # ---- model source
  from harness.drivers import c01
  models = [c['model'] for c in c01.relational_cases(ctx, 'c04-models', 4, 60 if q else 600, seed_off=41)]
  fmodels = [c['model'] for c in c01.relational_cases(ctx, 'c04-free', 4, 12 if q else 200, cls='freeroot', seed_off=42)]
  fmodels = [m for m in fmodels if len(m['links']) > 1]
  T = 50 if q else 200
  cases, meta = [], []
  for m in fmodels:
    if free_rooted(m):
      acts = random_acts(m, r)
      xml = render.render(m, actuators=acts, gravity=(0.0, 0.0, -9.81), dt=0.002, custom=scene_options(r) or None)
      qv, qdv = phys.float_state(m, r)
      if r.random() < 0.2:      # a system flying (and tumbling) very fast: momentum bookkeeping must not depend on the speed
        k = 0
        for l in m['links']:
          if l['root'] == 'free':
            qdv[k:k + 3] = [x * 3000.0 for x in qdv[k:k + 3]]
            k += 6
          else:
            k += len(l['stack'])
      ctrl = [[r.uniform(-2, 2) for _ in acts] for _ in range(T)]
      for pipe in ('spring', 'positional'):
        cases.append({'xml': xml, 'pipe': pipe, 'q': qv, 'qd': qdv, 'steps': T, 'acts': ctrl if acts else None})
        meta.append({'kind': 'model', 'joints': sum(len(l['stack']) for l in m['links']), 'cls': stack_class(m)})
  for _ in range(10 if q else 150):
    xml, qd = collision_scene(r)
    for pipe in ('spring', 'positional'):
      cases.append({'xml': xml, 'pipe': pipe, 'q': None, 'qd': qd, 'steps': 150, 'acts': None})
      meta.append({'kind': 'collision'})
  # rest cases: every model, three pipelines, springs removed, no gravity
  rest_cases, rest_meta = [], []
  for m in models[: (40 if q else 400)]:
    m2 = json.loads(json.dumps(m))
    for l in m2['links']:
      for jt in l['stack']:
        jt['stiffness'] = [0, 1]
    xml = render.render(m2, gravity=(0.0, 0.0, 0.0), dt=0.002)
    qv, _ = phys.float_state(m2, r, qscale=1.0)
    for pipe in ('generalized', 'spring', 'positional'):
      rest_cases.append({'xml': xml, 'pipe': pipe, 'q': qv, 'qd': None, 'steps': 1, 'acts': None})
      rest_meta.append({'kind': 'rest', 'cls': stack_class(m)})
  traces, info = [], []
  for (case, out), mt in zip(par.run('harness.phys', 'rollout', cases + rest_cases, chunksize=1), meta + rest_meta):
    if 'brax_error' in out:
      ctx.violation(f'{case["pipe"]} pipeline raised: {out["brax_error"]}', {k: case[k] for k in ('xml', 'pipe', 'q', 'qd')},
                    {'call': case['pipe'], 'predicate': 'raised'})
      continue
    if mt['kind'] == 'rest':
      # observed on link poses and velocities: the joint coordinates the spring / positional pipelines report for a slide
      # placed after a hinge in one stack do not round-trip (documented upstream limitation, K2 under C08)
      pos, rot = np.array(out['pos']), np.array(out['rot'])
      drot = np.minimum(np.abs(rot[1] - rot[0]).max(axis=-1), np.abs(rot[1] + rot[0]).max(axis=-1))
      dq = float(max(np.max(np.abs(pos[1] - pos[0])), np.max(drot)))
      dqd = float(max(np.max(np.abs(np.array(out['vel'])[1])), np.max(np.abs(np.array(out['ang'])[1]))))
      if case['pipe'] == 'generalized':
        qa = np.array(out['q'])
        dq = max(dq, float(np.max(np.abs(qa[1] - qa[0]))) if qa.shape[1] else 0.0)
        dqd = max(dqd, float(np.max(np.abs(np.array(out['qd'])[1]))) if qa.shape[1] else 0.0)
      qa = np.array(out['q'])
      evs = [{'kind': 'rest', 'free_rooted': 0, 'touches_world': 0, 'diverged': 0, 'res': [0, 0, 0], 'at_rest': 1,
              'no_gravity': 1, 'no_ctrl': 1, 'no_contact': 1, 'inside_limits': 1, 'dq': quant(dq), 'dqd': quant(dqd)}]
      nontriv = qa.shape[1] > 0
    else:
      evs = momentum_events(out, True, False)
      vel = np.array(out['vel'])
      nontriv = mt.get('joints', 0) > 0 or (mt['kind'] == 'collision' and float(np.max(np.abs(vel[-1] - vel[0]))) > 1e-3)
    traces.append(evs)
    info.append((case, mt, nontriv))
  tf = os.path.join(tlc.WORK, 'c04.json')
  with open(tf, 'w') as f:
    json.dump(traces, f)
  cfg = os.path.join(tlc.WORK, 'c04-trace.cfg')
  tlc.write_cfg(cfg, init='TraceInit', next_='TraceNext', constants={'Eps': EPS}, constraints=['Progress'],
                postcondition='AllAccepted')
  res = tlc.run('MomentumTrace', cfg, name='c04-trace', workers=1, env={'TRACE_FILE': tf})
  ctx.add_tlc(res, 'MomentumTrace.tla')
  rejected = tlc.parse_rejects(res, 'c04-trace')
  ndiv = 0
  for i, (evs, (case, mt, nontriv)) in enumerate(zip(traces, info)):
    ctx.traces += 1
    ndiv += int(any(e['diverged'] for e in evs))
    ctx.case(key=(case['xml'], case['pipe'], mt['kind']), nontrivial=nontriv,
             sample={'pipeline': case['pipe'], 'kind': mt['kind'], 'xml': case['xml'], 'first_events': evs[:2]}
             if len(ctx.samples) < 3 and nontriv and i % 7 == 0 else None)
    if (i + 1) in rejected:
      at = rejected[i + 1]
      bad = evs[at - 1] if 0 < at <= len(evs) else None
      what = (f'{case["pipe"]}: total linear momentum changed by an internal force at step {at}: residual {bad["res"]} x1e-12 '
              f'of the momentum scale') if mt['kind'] != 'rest' else \
             (f'{case["pipe"]}: a system at rest without gravity, control or contact moved: dq={bad["dq"]}e-12 dqd={bad["dqd"]}e-12')
      ctx.violation(what, {k: case[k] for k in ('xml', 'pipe', 'q', 'qd', 'steps')} | {'event': bad, 'step': at},
                    {'call': case['pipe'], 'predicate': mt['kind'], 'stacks': mt.get('cls', 'n/a')})
  ctx.extra.update(momentum_rollouts=len(cases), rest_cases=len(rest_cases), diverged_rollouts=ndiv)
  ctx.exhaustive = False


def replay(ctx, path):
  with open(path) as f:
    body = json.load(f)
  print(json.dumps(body, indent=1)[:6000])
  ctx.seed, ctx.tier = body.get('seed', ctx.seed), body.get('tier', ctx.tier)
  ctx.quick = ctx.tier == 'quick'
  run(ctx)
