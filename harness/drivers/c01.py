"""C01 — forward kinematics matches the reference engine.  Kinematics.tla (exact rationals, reference semantics) gives
expected link poses and, for the claimed class, velocities; brax's kinematics.forward must reproduce them, and MuJoCo
on the same cases validates the specification.  A relational extension compares brax with MuJoCo directly on bigger
ModelSpace skeletons at generic float poses."""
from __future__ import annotations

import json
import os
import re

import numpy as np

from harness import core, par, render, tlaval, tlc

TOL = 1e-9


def done_states(dump):
  with open(dump) as f:
    txt = f.read()
  for block in re.split(r'^State \d+:\n', txt, flags=re.M)[1:]:
    if 'phase = "done"' in block:
      yield tlaval.parse_state(block.strip())


def qvec(model, pose):
  q, qd = [], []
  for l, p in zip(model['links'], pose):
    if l['root'] == 'free':
      q += render.fvec(p['rootpos']) + render.fvec(p['rootquat'])
      qd += render.fvec(p['qdlin']) + render.fvec(p['qdang'])
    else:
      for jt, jp in zip(l['stack'], p['joints']):
        if jt['kind'] == 'H':
          q.append(render.half_angle(render.Fraction(jp['ha'][0], jp['ha'][2]), render.Fraction(jp['ha'][1], jp['ha'][2])))
        else:
          q.append(render.fl(jp['d']))
        qd.append(render.fl(jp['qd']))
  return np.array(q), np.array(qd)


def vel_known_kind(model, i):
  """Why link i (0-based) is outside the velocity claim: 'stacked_or_offset' (documented upstream limitation)."""
  return 'stacked_or_offset'


def eval_case(case):
  """Worker: returns brax and MuJoCo FK for one (model, pose)."""
  import jax
  import jax.numpy as jp
  import mujoco
  from brax import kinematics
  from brax.io import mjcf
  model, pose = case['model'], case['pose']
  xml = render.render(model)
  q, qd = qvec(model, pose) if 'q' not in case else (np.array(case['q']), np.array(case['qd']))
  try:
    sys = mjcf.loads(xml)
    x, xd = jax.jit(kinematics.forward)(sys, jp.asarray(q), jp.asarray(qd))
  except Exception as e:  # the code under test failed: a verdict, not a machinery error
    return {'xml': xml, 'q': q.tolist(), 'qd': qd.tolist(), 'brax_error': f'{type(e).__name__}: {str(e)[:300]}'}
  mj = mujoco.MjModel.from_xml_string(xml)
  d = mujoco.MjData(mj)
  d.qpos[:] = q
  d.qvel[:] = qd
  mujoco.mj_forward(mj, d)
  n = len(model['links'])
  mpos, mrot, mang, mvel = [], [], [], []
  for i in range(1, n + 1):
    bid = mujoco.mj_name2id(mj, mujoco.mjtObj.mjOBJ_BODY, f'L{i}')
    mpos.append(d.xpos[bid].tolist())
    mrot.append(d.xquat[bid].tolist())
    v = np.zeros(6)
    mujoco.mj_objectVelocity(mj, d, mujoco.mjtObj.mjOBJ_XBODY, bid, v, 0)
    mang.append(v[:3].tolist())
    mvel.append(v[3:].tolist())
  return {'xml': xml, 'q': q.tolist(), 'qd': qd.tolist(),
          'brax': {'pos': np.asarray(x.pos).tolist(), 'rot': np.asarray(x.rot).tolist(),
                   'ang': np.asarray(xd.ang).tolist(), 'vel': np.asarray(xd.vel).tolist()},
          'mj': {'pos': mpos, 'rot': mrot, 'ang': mang, 'vel': mvel}}


def qdiff(a, b):
  a, b = np.asarray(a), np.asarray(b)
  return min(np.max(np.abs(a - b)), np.max(np.abs(a + b)))


def in_vel_class(model):
  ok = []
  for l in model['links']:
    me = l['root'] == 'free' or (len(l['stack']) == 1 and all(render.fr(x) == 0 for x in l['anchor']))
    ok.append(me and (l['parent'] == 0 or ok[l['parent'] - 1]))
  return ok


def judge(ctx, case, r, spec=None):
  if 'brax_error' in r:
    ctx.violation(f'kinematics.forward raised: {r["brax_error"]}', {k: r[k] for k in ('xml', 'q', 'qd')},
                  {'call': 'kinematics.forward', 'predicate': 'raised'})
    return
  model = case['model']
  n = len(model['links'])
  bx, mj = r['brax'], r['mj']
  vc = in_vel_class(model)
  info = {'xml': r['xml'], 'q': r['q'], 'qd': r['qd']}
  if spec is not None:
    for i in range(n):
      sp = render.fvec(spec['x'][i]['pos'])
      sq = render.fvec(spec['x'][i]['rot'])
      if np.max(np.abs(np.array(sp) - mj['pos'][i])) > 1e-9 * (1 + np.max(np.abs(sp))) or qdiff(sq, mj['rot'][i]) > 1e-9:
        raise tlc.MachineryError(f'Kinematics.tla and MuJoCo disagree on link {i + 1} pose: {sp} {sq} vs '
                                 f'{mj["pos"][i]} {mj["rot"][i]}\n{r["xml"]}\nq={r["q"]}')
      if spec['velclass'][i]:
        sa, sv = render.fvec(spec['xd'][i]['ang']), render.fvec(spec['xd'][i]['vel'])
        if np.max(np.abs(np.array(sa) - mj['ang'][i])) > 1e-9 or np.max(np.abs(np.array(sv) - mj['vel'][i])) > 1e-9:
          raise tlc.MachineryError(f'Kinematics.tla and MuJoCo disagree on link {i + 1} velocity: {sa} {sv} vs '
                                   f'{mj["ang"][i]} {mj["vel"][i]}\n{r["xml"]}\nq={r["q"]} qd={r["qd"]}')
  for i in range(n):
    ref_pos = render.fvec(spec['x'][i]['pos']) if spec is not None else mj['pos'][i]
    ref_rot = render.fvec(spec['x'][i]['rot']) if spec is not None else mj['rot'][i]
    l = model['links'][i]
    tag_struct = ('free' if l['root'] == 'free' else ''.join(j['kind'] for j in l['stack']))
    if np.max(np.abs(np.array(ref_pos) - bx['pos'][i])) > TOL * (1 + np.max(np.abs(ref_pos))) or \
        qdiff(ref_rot, bx['rot'][i]) > TOL:
      ctx.violation(f'forward: link {i + 1} ({tag_struct}) pose {bx["pos"][i]} {bx["rot"][i]} differs from the reference '
                    f'{ref_pos} {ref_rot}', {**info, 'link': i + 1}, {'call': 'kinematics.forward', 'predicate': 'pose'})
      return
    ref_ang = render.fvec(spec['xd'][i]['ang']) if spec is not None and vc[i] else mj['ang'][i]
    ref_vel = render.fvec(spec['xd'][i]['vel']) if spec is not None and vc[i] else mj['vel'][i]
    bad_v = (np.max(np.abs(np.array(ref_ang) - bx['ang'][i])) > TOL * (1 + np.max(np.abs(ref_ang))) or
             np.max(np.abs(np.array(ref_vel) - bx['vel'][i])) > TOL * (1 + np.max(np.abs(ref_vel))))
    if bad_v and vc[i]:
      kinds = ''.join(j['kind'] for j in l['stack'])
      ctx.violation(f'forward: link {i + 1} ({tag_struct}) velocity ang={bx["ang"][i]} vel={bx["vel"][i]} differs from '
                    f'the reference ang={ref_ang} vel={ref_vel}', {**info, 'link': i + 1},
                    {'call': 'kinematics.forward', 'predicate': 'velocity', 'joint': kinds or 'free'})
      return
    if bad_v and not vc[i]:
      # documented upstream limitation (TODO in kinematics.forward): tracked, not part of the claim
      ctx.violation(f'forward: velocity of link {i + 1} outside the claimed class differs from the reference',
                    {**info, 'link': i + 1}, {'call': 'kinematics.forward', 'predicate': 'velocity_stacked_or_offset'})


def nontrivial(model):
  return any(l['quat'] != ((1, 1), (0, 1), (0, 1), (0, 1)) for l in model['links'])


def run(ctx):
  q = ctx.quick
  ctx.rule = ('exact part: TLC draws ModelSpace genomes (1-3 links; free/world roots; 1-3 stacked hinge/slide joints; '
              'orthogonal, left-handed and skew axis triads; body/anchor/inertial offsets) and rational poses within a '
              'denominator budget, computes FK with reference semantics over exact rationals; brax forward must match '
              'to 1e-9 and MuJoCo must agree with the specification. relational part: the same model space up to 6 '
              'links at seeded float poses, brax vs MuJoCo. non-trivial = some body has a non-identity rotation.')
  ctx.assumptions = ['float64; tolerance 1e-9(1+|v|); quaternions compared up to sign',
                     'velocity clause only for free links and single joints anchored at the link origin with ancestors '
                     'likewise; other links are tracked as the documented upstream limitation (K1)',
                     'exact part limited by the 32-bit denominator budget (<= 5 units of log5 per chain)']
  os.makedirs(tlc.WORK, exist_ok=True)
  cases = []
  for label, cls, maxl, nm, npz in ([('c01-any', 'any', 3, 40, 2), ('c01-simple', 'simple', 3, 40, 2)] if q else
                                    [('c01-any', 'any', 3, 400, 3), ('c01-simple', 'simple', 4, 400, 3)]):
    dump = os.path.join(tlc.WORK, label)
    res = None
    for budget in (3, 2, 1):   # a 32-bit overflow is a loud TLC error: retry with a smaller denominator budget
      cfg = os.path.join(tlc.WORK, f'{label}.cfg')
      tlc.write_cfg(cfg, constants={'Class': f'"{cls}"', 'MaxLinks': maxl, 'NModels': nm, 'NPoses': npz,
                                    'Budget': budget, 'SeedBase': core.seed_base(ctx, 1)}, invariants=['ModelWellFormed', 'UnitRotations'])
      try:
        res = tlc.run('Kinematics', cfg, name=label, dump=dump, seed=ctx.seed + 11, expect_ok=True, coverage=True)
        break
      except tlc.MachineryError as e:
        if 'Overflow' not in str(e) and 'Overflow' not in open(os.path.join(tlc.WORK, label, 'tlc.out')).read():
          raise
        ctx.note(f'{label}: 32-bit overflow at budget {budget}, retrying smaller')
    if res is None:
      raise tlc.MachineryError(f'{label}: overflow at every budget')
    tlc.require_coverage(res, ['Compute'], label)
    ctx.add_tlc(res, label)
    for st in done_states(dump + '.dump'):
      cases.append({'model': st['model'], 'pose': st['pose'], 'spec': st['out'], 'label': label})
  for case, r in par.run('harness.drivers.c01', 'eval_case', cases):
    ctx.traces += 1
    ctx.case(key=(r['xml'], tuple(r['q']), tuple(r['qd'])), nontrivial=nontrivial(case['model']),
             sample={'xml': r['xml'], 'q': r['q'], 'qd': r['qd'], 'expected_x': case['spec']['x']}
             if len(ctx.samples) < 3 and len(case['model']['links']) > 1 and 'brax_error' not in r else None)
    judge(ctx, case, r, spec=case['spec'])
  ctx.extra['exact_cases'] = len(cases)
  # ---- relational extension: bigger forests, generic float poses, brax vs MuJoCo (specification supplies the models)
  rel = relational_cases(ctx, 'c01-rel', 6, 30 if q else 600)
  # wide forests: six-link models re-parented to several roots with 2 / 0 / 1 (and 1 / 0 / 2, 2 / 1 / 0) children, whose
  # level-to-level parent maps have repeats AND gaps (depth-first body order is kept)
  shaped = []
  for c in rel:
    if len(c['model']['links']) == 6 and all(l['root'] != 'free' for l in c['model']['links'][1:]):
      for pattern in ([0, 1, 1, 0, 0, 5], [0, 1, 0, 0, 4, 4], [0, 1, 1, 0, 4, 0]):
        m2 = json.loads(json.dumps(c['model']))
        for l, p in zip(m2['links'], pattern):
          l['parent'] = p
        shaped.append({**c, 'model': m2})
      if len(shaped) >= (6 if q else 90):
        break
  ctx.extra['wide_forest_cases'] = len(shaped)
  rel = rel + shaped
  for case, r in par.run('harness.drivers.c01', 'eval_case', rel):
    ctx.case(key=(r['xml'], tuple(r['q'])), nontrivial=True)
    judge(ctx, case, r, spec=None)
  ctx.extra['relational_cases'] = len(rel)
  ctx.exhaustive = False


def relational_cases(ctx, label, maxl, nm, cls='any', seed_off=12):
  """ModelSpace models (no exact computation) with seeded float poses."""
  cfg = os.path.join(tlc.WORK, f'{label}.cfg')
  tlc.write_cfg(cfg, init='ModelsOnlyInit', next_='ModelsOnlyNext',
                constants={'Class': f'"{cls}"', 'MaxLinks': maxl, 'NModels': nm, 'SeedBase': core.seed_base(ctx, seed_off)})
  dump = os.path.join(tlc.WORK, label)
  res = tlc.run('ModelSpaceGen', cfg, name=label, dump=dump, seed=ctx.seed + seed_off, expect_ok=True)
  ctx.add_tlc(res, label)
  r = core.rng(ctx, seed_off)
  out = []
  for st in tlaval.parse_dump(dump + '.dump'):
    model = st['model']
    nq, nv, types, _ = render.structure(model)
    qv, qdv = [], []
    for l in model['links']:
      if l['root'] == 'free':
        quat = np.array([r.gauss(0, 1) for _ in range(4)])
        quat /= np.linalg.norm(quat)
        qv += [r.uniform(-1, 1) for _ in range(3)] + quat.tolist()
        qdv += [r.uniform(-1, 1) for _ in range(6)]
      else:
        qv += [r.uniform(-2, 2) for _ in l['stack']]
        qdv += [r.uniform(-1, 1) for _ in l['stack']]
    out.append({'model': model, 'pose': None, 'q': qv, 'qd': qdv})
  return out


def replay(ctx, path):
  with open(path) as f:
    body = json.load(f)
  print(json.dumps(body, indent=1)[:6000])
  ctx.seed, ctx.tier = body.get('seed', ctx.seed), body.get('tier', ctx.tier)
  ctx.quick = ctx.tier == 'quick'
  run(ctx)
