"""Ordering half of C05: replay of Scan.tla states into the real brax.scan.tree / scan.link_types."""
from __future__ import annotations

import os
import types as pytypes

import numpy as np

from harness import tlaval, tlc
from harness.drivers.c01 import done_states

CODE = {'f': 7, '1': 11, '2': 13, '3': 17}
DW = {'f': 6, '1': 1, '2': 2, '3': 3}
QW = {'f': 7, '1': 1, '2': 2, '3': 3}
TYPESETS = ['f', '1', '2', '3', '123', 'f123']


def run_scan(ctx, nmax):
  import jax
  jax.config.update('jax_enable_x64', True)
  import jax.numpy as jp
  from brax import base, scan
  cfg = os.path.join(tlc.WORK, 'c05-scan.cfg')
  os.makedirs(tlc.WORK, exist_ok=True)
  from harness import core
  tlc.write_cfg(cfg, constants={'N': nmax, 'NBig': 300 if nmax <= 4 else 5000, 'BigLinks': 8, 'SeedBase': core.seed_base(ctx, 55)},
                invariants=['GroupedEqualsNaiveDown', 'GroupedEqualsNaiveUp', 'TypesScanInLinkOrder', 'OrderIsPermutation',
                            'IndexHelpersPartition'])
  dump = os.path.join(tlc.WORK, 'c05-scan')
  res = tlc.run('Scan', cfg, name='c05-scan', dump=dump, expect_ok=True, coverage=True)
  tlc.require_coverage(res, ['Compute'], 'c05-scan')
  ctx.add_tlc(res, f'Scan.tla N<={nmax}')
  nrep = 0
  for s in done_states(dump + '.dump'):
    parents = [p - 1 for p in s['parents']]
    typs = ''.join(s['types'])
    n = len(parents)
    sysns = pytypes.SimpleNamespace(link_parents=tuple(parents), link_types=typs, num_links=lambda n=n: n)
    nd = sum(DW[t] for t in typs)
    nq = sum(QW[t] for t in typs)
    al = jp.asarray(np.array([2 * i + 1 for i in range(1, n + 1)], np.int64))
    ad = jp.asarray(np.array([5 * k + 2 for k in range(1, nd + 1)], np.int64))
    aq = jp.asarray(np.array([7 * k + 3 for k in range(1, nq + 1)], np.int64))
    seg = base.System.dof_link(sysns, depth=True)

    def f(y, a_l, a_d, sg):
      carry = 1000 if y is None else y
      return 3 * carry + a_l + 2 * jax.ops.segment_sum(a_d, sg, a_l.shape[0])

    def g(typ, a_l, a_d):
      return CODE[typ] * a_l + jp.sum(a_d.reshape(a_l.shape[0], -1), axis=1)

    def gq(typ, a_q):
      return CODE[typ] * a_q

    case = {'link_parents': parents, 'link_types': typs}
    try:
      down = np.asarray(scan.tree(sysns, f, 'ldd', al, ad, seg)).tolist()
      up = np.asarray(scan.tree(sysns, f, 'ldd', al, ad, seg, reverse=True)).tolist()
      byt = np.asarray(scan.link_types(sysns, g, 'ld', 'l', al, ad)).tolist()
      bytq = np.asarray(scan.link_types(sysns, gq, 'q', 'q', aq)).tolist()
    except Exception as e:  # pylint: disable=broad-except
      ctx.violation(f'scan raised on parents={parents} types={typs}: {type(e).__name__}: {str(e)[:200]}', case,
                    {'call': 'scan', 'predicate': 'raised'})
      continue
    # index helpers of base.System on the same forest
    idx = s['out']['idx']
    try:
      helpers = [('dof_link', np.asarray(base.System.dof_link(sysns)).tolist(), list(idx['dof_link'])),
                 ('dof_link(depth)', np.asarray(seg).tolist(), list(idx['dof_link_depth'])),
                 ('dof_ranges', [list(x) for x in base.System.dof_ranges(sysns)], [list(x) for x in idx['dof_ranges']])]
      for c, ts in enumerate(TYPESETS):
        helpers.append((f'q_idx({ts!r})', np.asarray(base.System.q_idx(sysns, ts)).astype(int).tolist(), list(idx['q_idx'][c])))
        helpers.append((f'qd_idx({ts!r})', np.asarray(base.System.qd_idx(sysns, ts)).astype(int).tolist(), list(idx['qd_idx'][c])))
    except Exception as e:  # pylint: disable=broad-except
      ctx.violation(f'System index helper raised on parents={parents} types={typs}: {type(e).__name__}: {str(e)[:200]}', case,
                    {'call': 'System.index', 'predicate': 'raised'})
      continue
    for name, got, want in helpers:
      if got != want:
        ctx.violation(f'System.{name} on parents={parents} types={typs}: {got} != specification {want}', case,
                      {'call': 'System.index', 'predicate': name.split('(')[0]})
        break
    nrep += 1
    ctx.traces += 1
    nontriv = n >= 3 and len(set(parents)) > 1
    ctx.case(key=(tuple(parents), typs), nontrivial=nontriv,
             sample={**case, 'expected_down': list(s['out']['down'])} if nrep == 700 else None)
    for name, got, want in (('tree', down, s['out']['down']), ('tree(reverse)', up, s['out']['up']),
                            ('link_types', byt, s['out']['bytype']), ("link_types('q')", bytq, s['out']['bytype_q'])):
      if list(got) != list(want):
        ctx.violation(f'scan.{name} on parents={parents} types={typs}: {got} != naive definition {list(want)}', case,
                      {'call': 'scan', 'predicate': name})
        break
  ctx.extra['scan_forests_replayed'] = nrep
