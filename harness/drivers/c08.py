"""C08 — joint coordinates and world coordinates round-trip.

JointFrame.tla enumerates the branch space of the axis-frame construction (patterns x orthonormal triads of either
handedness) with the facts any correct frame satisfies; the real link_to_joint_frame is checked against them.  The round
trip itself (oracle: the identity) runs on ModelSpace models of class "ortho", and the spring / positional pipelines'
reported q must be the inverse image of the x they report."""
from __future__ import annotations

import importlib
import json
import os

import numpy as np

from harness import core, par, phys, render, tlaval, tlc


def frame_case(case):
  import jax.numpy as jp
  from brax import base, kinematics
  m = base.Motion(ang=jp.asarray(np.array(case['ang'], float)), vel=jp.asarray(np.array(case['vel'], float)))
  try:
    fr, parity = kinematics.link_to_joint_frame(m)
  except Exception as e:  # pylint: disable=broad-except
    return {'brax_error': f'{type(e).__name__}: {str(e)[:200]}'}
  return {'ang': np.asarray(fr.ang).tolist(), 'vel': np.asarray(fr.vel).tolist(), 'parity': float(parity)}


def roundtrip_case(case):
  import jax
  import jax.numpy as jp
  from brax import kinematics
  from brax.io import mjcf
  xml = case['xml']
  q, qd = np.array(case['q']), np.array(case['qd'])
  try:
    sys = mjcf.loads(xml)

    @jax.jit
    def rt(q, qd):
      x, xd = kinematics.forward(sys, q, qd)
      j, jd, _, _ = kinematics.world_to_joint(sys, x, xd)
      return kinematics.inverse(sys, j, jd)

    # the same poses with the other quaternion representative on every second link (-rot is the same orientation)
    @jax.jit
    def rt_flipped(q, qd):
      x, xd = kinematics.forward(sys, q, qd)
      sign = jp.where(jp.arange(x.rot.shape[0]) % 2 == 0, -1.0, 1.0)
      j, jd, _, _ = kinematics.world_to_joint(sys, x.replace(rot=x.rot * sign[:, None]), xd)
      return kinematics.inverse(sys, j, jd)

    q2, qd2 = rt(jp.asarray(q), jp.asarray(qd))
    q3, qd3 = rt_flipped(jp.asarray(q), jp.asarray(qd))
    out = {'q2': np.asarray(q2).tolist(), 'qd2': np.asarray(qd2).tolist(), 'q3': np.asarray(q3).tolist(),
           'qd3': np.asarray(qd3).tolist(), 'pipes': {}}
    for pn in ('spring', 'positional'):
      pipe = importlib.import_module(f'brax.{pn}.pipeline')

      @jax.jit
      def run(q, qd):
        st = pipe.init(sys, q, qd)
        st = pipe.step(sys, st, jp.zeros(sys.act_size()))
        j, jd, _, _ = kinematics.world_to_joint(sys, st.x, st.xd)
        qi, qdi = kinematics.inverse(sys, j, jd)
        return st.q, st.qd, qi, qdi

      a, b, c, d = run(jp.asarray(q), jp.asarray(qd))
      out['pipes'][pn] = {'q': np.asarray(a).tolist(), 'qd': np.asarray(b).tolist(), 'qi': np.asarray(c).tolist(),
                          'qdi': np.asarray(d).tolist()}
    return out
  except Exception as e:  # pylint: disable=broad-except
    return {'brax_error': f'{type(e).__name__}: {str(e)[:300]}'}


def run(ctx):
  q = ctx.quick
  r = core.rng(ctx, 8)
  from harness.drivers import c01
  ctx.rule = ('JointFrame.tla: 8 stack patterns x 10 orthonormal triads (world-aligned, rotated, left-handed, sign-flipped), '
              'exhaustive; link_to_joint_frame must satisfy the exported facts. Round trip: ModelSpace class "ortho" models '
              '(1-4 links) at seeded q in [-1.2,1.2], unit root quaternions, random qd; q always, qd for free and '
              'single-hinge links; spring/positional reported q = inverse image of reported x after a step. '
              'non-trivial = a stack with more than one joint or a left-handed triad.')
  ctx.assumptions = ['oracle of the round trip is the identity map; tolerance 1e-7 on q (the inverse reads angles through arccos / arcsin, whose conditioning at an angle of exactly 0 costs sqrt(machine epsilon) = 1.5e-8 in float64), quaternions up to sign',
                     'velocity round trip of prismatic / stacked joints is the documented upstream limitation (tracked)']
  os.makedirs(tlc.WORK, exist_ok=True)
  cfg = os.path.join(tlc.WORK, 'c08-frame.cfg')
  tlc.write_cfg(cfg, constants={'Class': '"ortho"', 'SeedBase': 0}, invariants=['TriadOrthonormal', 'Handed', 'ParityIsSign'])
  dump = os.path.join(tlc.WORK, 'c08-frame')
  res = tlc.run('JointFrame', cfg, name='c08-frame', dump=dump, expect_ok=True)
  ctx.add_tlc(res, 'JointFrame.tla')
  states = list(tlaval.parse_dump(dump + '.dump'))
  fcases = [{'ang': [render.fvec(a) for a in s['exp']['ang']], 'vel': [render.fvec(a) for a in s['exp']['vel']]} for s in states]
  for s, (case, out) in zip(states, par.run('harness.drivers.c08', 'frame_case', fcases, procs=4)):
    e = s['exp']
    pat = ''.join(s['pat'])
    ctx.traces += 1
    ctx.case(key=(pat, s['triad']), nontrivial=len(pat) > 1 or s['triad'] > 3,
             sample={'pattern': pat, 'triad': s['triad'], 'motion': case} if len(ctx.samples) < 2 and len(pat) == 3 else None)
    if 'brax_error' in out:
      ctx.violation(f'link_to_joint_frame raised on {pat}/{s["triad"]}: {out["brax_error"]}', case, {'call': 'link_to_joint_frame', 'predicate': 'raised'})
      continue
    A, V = np.array(out['ang']), np.array(out['vel'])
    bad = []
    if e['rot_frame_orthonormal'] and np.max(np.abs(A @ A.T - np.eye(3))) > 1e-12:
      bad.append(f'rotational frame not orthonormal: {A.tolist()}')
    if e['trans_frame_orthonormal'] and np.max(np.abs(V @ V.T - np.eye(3))) > 1e-12:
      bad.append(f'translational frame not orthonormal: {V.tolist()}')
    for j, k in enumerate(pat):
      if j == 2 and not e['mixed']:
        continue   # third row of a pure 3-stack is a1 x a2 (= parity * a3), checked below
      ax = np.array(case['ang'][j] if k == 'H' else case['vel'][j])
      F = A if k == 'H' else V
      if np.max(np.abs(F[j] - ax)) > 1e-12:
        bad.append(f'axis of dof {j} not in slot {j}: {F[j].tolist()} vs {ax.tolist()}')
    if abs(out['parity'] - render.fl(e['parity'])) > 1e-12 and 'H' in pat:
      bad.append(f'parity {out["parity"]} != {render.fl(e["parity"])}')
    if e['mixed']:
      if abs(np.linalg.det(A) - 1) > 1e-12 or abs(np.linalg.det(V) - 1) > 1e-12:
        bad.append('completed frame of a mixed stack is not right-handed')
    elif len(pat) >= 2:
      F, third = (A, e['third_rot']) if 'H' in pat else (V, e['third_trans'])
      if np.max(np.abs(F[2] - np.array(render.fvec(third)))) > 1e-12:
        bad.append(f'third row {F[2].tolist()} != a1 x a2 {render.fvec(third)}')
    if bad:
      ctx.violation(f'link_to_joint_frame({pat}, triad {s["triad"]}): ' + '; '.join(bad[:2]), {**case, 'got': out},
                    {'call': 'link_to_joint_frame', 'predicate': 'frame'})
  # ---- round trips
  rcases, models = [], []
  for c in c01.relational_cases(ctx, 'c08-models', 4, 20 if q else 400, cls='ortho', seed_off=81):
    m = c['model']
    qv, qdv = phys.float_state(m, r, qscale=1.2, qdscale=1.0, special=0.25)
    rcases.append({'xml': render.render(m), 'q': qv, 'qd': qdv})
    models.append(m)
  known_qd = 0
  for m, (case, out) in zip(models, par.run('harness.drivers.c08', 'roundtrip_case', rcases)):
    ctx.traces += 1
    multi = any(len(l['stack']) > 1 for l in m['links'])
    ctx.case(key=(case['xml'], tuple(case['q'])), nontrivial=multi or any(l['axisset'] in (4, 5, 6, 8, 9, 10) for l in m['links']),
             sample={'xml': case['xml'], 'q': case['q']} if len(ctx.samples) < 4 and multi else None)
    info = {'xml': case['xml'], 'q': case['q'], 'qd': case['qd']}
    if 'brax_error' in out:
      ctx.violation(f'round trip raised: {out["brax_error"]}', info, {'call': 'kinematics', 'predicate': 'raised'})
      continue
    qa, q2, qd0, qd2 = np.array(case['q']), np.array(out['q2']), np.array(case['qd']), np.array(out['qd2'])
    qi = di = 0
    bad = None
    for li, l in enumerate(m['links']):
      if l['root'] == 'free':
        if np.max(np.abs(qa[qi:qi + 3] - q2[qi:qi + 3])) > 1e-7 or c01_qdiff(qa[qi + 3:qi + 7], q2[qi + 3:qi + 7]) > 1e-7:
          bad = bad or ('q', f'free link {li + 1}: {q2[qi:qi + 7].tolist()} != {qa[qi:qi + 7].tolist()}')
        if np.max(np.abs(qd0[di:di + 6] - qd2[di:di + 6])) > 1e-7:
          bad = bad or ('qd', f'free link {li + 1}: qd {qd2[di:di + 6].tolist()} != {qd0[di:di + 6].tolist()}')
        qi += 7
        di += 6
      else:
        n = len(l['stack'])
        if np.max(np.abs(qa[qi:qi + n] - q2[qi:qi + n])) > 1e-7:
          bad = bad or ('q', f'link {li + 1} ({"".join(j["kind"] for j in l["stack"])}, triad {l["axisset"]}): q '
                             f'{q2[qi:qi + n].tolist()} != {qa[qi:qi + n].tolist()}')
        single_hinge = n == 1 and l['stack'][0]['kind'] == 'H'
        if np.max(np.abs(qd0[di:di + n] - qd2[di:di + n])) > 1e-7:
          if single_hinge and all(render.fr(x) == 0 for x in l['anchor']) and vel_class_parent(m, li):
            bad = bad or ('qd', f'single-hinge link {li + 1}: qd {qd2[di:di + n].tolist()} != {qd0[di:di + n].tolist()}')
          else:
            known_qd += 1
        qi += n
        di += n
    if bad:
      ctx.violation(f'inverse(world_to_joint(forward(q, qd))) != (q, qd): {bad[1]}', info, {'call': 'kinematics', 'predicate': 'roundtrip_' + bad[0]})
      continue
    # a pose does not depend on the sign of its quaternion: the inverse image must not either
    q3, qd3 = np.array(out['q3']), np.array(out['qd3'])
    qi = 0
    for li, l in enumerate(m['links']):
      n = 7 if l['root'] == 'free' else len(l['stack'])
      d = max(np.max(np.abs(q2[qi:qi + 3] - q3[qi:qi + 3])), c01_qdiff(q2[qi + 3:qi + 7], q3[qi + 3:qi + 7])) if l['root'] == 'free' \
          else np.max(np.abs(q2[qi:qi + n] - q3[qi:qi + n]))
      if d > 1e-7:
        bad = ('q', f'link {li + 1}: q {q3[qi:qi + n].tolist()} from the poses with alternating quaternion signs, {q2[qi:qi + n].tolist()} from the poses as emitted')
        break
      qi += n
    if bad is None and np.max(np.abs(qd2 - qd3)) > 1e-7:
      bad = ('qd', f'qd {qd3.tolist()} from the poses with alternating quaternion signs, {qd2.tolist()} from the poses as emitted')
    if bad:
      ctx.violation(f'inverse image depends on the quaternion representative: {bad[1]}', info, {'call': 'kinematics', 'predicate': 'representative_' + bad[0]})
      continue
    for pn, po in out['pipes'].items():
      if np.max(np.abs(np.array(po['q']) - np.array(po['qi']))) > 1e-9 or np.max(np.abs(np.array(po['qd']) - np.array(po['qdi']))) > 1e-9:
        ctx.violation(f'{pn}: reported q/qd is not the inverse image of the reported link poses: {po["q"]} vs {po["qi"]}', info,
                      {'call': pn, 'predicate': 'reported_q'})
        break
  ctx.extra.update(frame_cases=len(states), roundtrip_cases=len(rcases), prismatic_or_stacked_qd_mismatches_tracked=known_qd)
  ctx.exhaustive = False


def c01_qdiff(a, b):
  a, b = np.asarray(a), np.asarray(b)
  return min(np.max(np.abs(a - b)), np.max(np.abs(a + b)))


def vel_class_parent(m, li):
  """All ancestors of link li are free or single joints anchored at the origin."""
  p = m['links'][li]['parent']
  while p:
    l = m['links'][p - 1]
    if not (l['root'] == 'free' or (len(l['stack']) == 1 and all(render.fr(x) == 0 for x in l['anchor']))):
      return False
    p = l['parent']
  return True


def replay(ctx, path):
  with open(path) as f:
    body = json.load(f)
  print(json.dumps(body, indent=1)[:6000])
  ctx.seed, ctx.tier = body.get('seed', ctx.seed), body.get('tier', ctx.tier)
  ctx.quick = ctx.tier == 'quick'
  run(ctx)
