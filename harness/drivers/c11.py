"""C11 — actuator force.  Actuator.tla (exact rationals; staged clip/gain/bias/clip/gear/scatter-add) is model-checked
(unactuated dofs get zero, forces add, monotone, constant outside the control range); every state is rendered
(motor/position/velocity actuators with gear, ctrlrange, forcerange on hinge and slide joints anywhere in a stack, free
roots shifting q vs qd indices) and actuator.to_tau must equal the specification exactly; MuJoCo's qfrc_actuator on the
same cases validates the specification."""
from __future__ import annotations

import json
import os
import re

import numpy as np

from harness import core, par, render, tlaval, tlc
from harness.drivers.c01 import done_states

INVS = ['UnactuatedGetZero', 'ForcesAdd', 'MonotoneInControl', 'ConstantOutsideCtrlRange', 'ModelWellFormed']


def actuators_of(acts):
  out = []
  for a in acts:
    d = {'kind': a['kind'], 'link': a['site'][0], 'j': a['site'][1], 'gear': render.fl(a['gear'])}
    if a['kind'] == 'position':
      d['kp'] = render.fl(a['gain'])
    if a['kind'] == 'velocity':
      d['kv'] = render.fl(a['gain'])
    if a['ctrlrange']:
      d['ctrlrange'] = (render.fl(a['ctrlrange'][0]), render.fl(a['ctrlrange'][1]))
    if a['forcerange']:
      d['forcerange'] = (render.fl(a['forcerange'][0]), render.fl(a['forcerange'][1]))
    if a.get('stale'):   # range attributes present but switched off: must have no effect
      d['extra'] = ''
      if not a['ctrlrange']:
        d['extra'] += ' ctrllimited="false" ctrlrange="-0.5 0.5"'
      if not a['forcerange']:
        d['extra'] += ' forcelimited="false" forcerange="-0.25 0.25"'
    out.append(d)
  return out


def eval_case(case):
  import jax
  import jax.numpy as jp
  import mujoco
  from brax import actuator
  from brax.io import mjcf
  model, acts, st = case['model'], case['acts'], case['st']
  xml = render.render(model, actuators=actuators_of(acts))
  mj = mujoco.MjModel.from_xml_string(xml)
  # full q / qd vectors: joint slots from the state, free roots at their initial pose with some velocity
  q = np.array(mj.qpos0)
  qd = np.zeros(mj.nv)
  j = 0
  qa = dict()
  for i, l in enumerate(model['links'], 1):
    if l['root'] == 'free':
      continue
    for k in range(len(l['stack'])):
      jid = mujoco.mj_name2id(mj, mujoco.mjtObj.mjOBJ_JOINT, f'J{i}_{k + 1}')
      q[mj.jnt_qposadr[jid]] = render.fl(st['q'][j])
      qd[mj.jnt_dofadr[jid]] = render.fl(st['qd'][j])
      j += 1
  for i, l in enumerate(model['links'], 1):
    if l['root'] == 'free':
      jid = mujoco.mj_name2id(mj, mujoco.mjtObj.mjOBJ_JOINT, f'J{i}_f')
      qd[mj.jnt_dofadr[jid]:mj.jnt_dofadr[jid] + 6] = [0.3, -0.2, 0.1, 0.7, -0.4, 0.2]
  ctrl = np.array([render.fl(c) for c in st['ctrl']])
  try:
    sys = mjcf.loads(xml)
    fn = jax.jit(actuator.to_tau)
    tau = np.asarray(fn(sys, jp.asarray(ctrl), jp.asarray(q), jp.asarray(qd)))
    # the control may arrive in a narrower dtype than the ranges (float32 policy output, integer bang-bang actions):
    # every control value here is a half-integer, so the conversion itself is exact
    alt = [('float32', np.asarray(fn(sys, jp.asarray(ctrl.astype(np.float32)), jp.asarray(q), jp.asarray(qd))).tolist())]
    if len(acts) and np.all(ctrl == np.round(ctrl)):
      alt.append(('int32', np.asarray(fn(sys, jp.asarray(ctrl.astype(np.int32)), jp.asarray(q), jp.asarray(qd))).tolist()))
    bumped = []
    for k in range(len(acts)):
      c2 = ctrl.copy()
      c2[k] += 0.5
      bumped.append(np.asarray(fn(sys, jp.asarray(c2), jp.asarray(q), jp.asarray(qd))).tolist())
  except Exception as e:  # the code under test failed: a verdict, not a machinery error
    return {'xml': xml, 'q': q.tolist(), 'qd': qd.tolist(), 'ctrl': ctrl.tolist(), 'brax_error': f'{type(e).__name__}: {str(e)[:300]}'}
  d = mujoco.MjData(mj)
  d.qpos[:] = q
  d.qvel[:] = qd
  if mj.nu:
    d.ctrl[:] = ctrl
  mujoco.mj_forward(mj, d)
  return {'xml': xml, 'q': q.tolist(), 'qd': qd.tolist(), 'ctrl': ctrl.tolist(), 'tau': tau.tolist(), 'bumped': bumped, 'alt': alt,
          'mj': np.asarray(d.qfrc_actuator).tolist(), 'qid': np.asarray(sys.actuator.q_id).tolist() if mj.nu else [],
          'qdid': np.asarray(sys.actuator.qd_id).tolist() if mj.nu else []}


def fn_to_list(f, n):
  if isinstance(f, dict):
    return [render.fl(f[d]) for d in range(n)]
  return [render.fl(x) for x in f]


def run(ctx):
  q = ctx.quick
  ctx.rule = ('TLC draws ModelSpace models (1-3 links, free and world roots, stacks of hinge/slide joints) with 0-6 '
              'actuators of mixed kinds (gear incl. negative and fractional, ctrl/force ranges or none, several per joint) '
              'and states with controls in [-3,3] on half-integers (so exactly on the bounds); 4 laws checked on the spec; '
              'each state replayed: to_tau must equal the rationals exactly (also with each control bumped by 1/2). '
              'non-trivial = at least one actuator.')
  ctx.assumptions = ['half-integer data: float64 evaluation is exact, comparison tolerance 1e-12',
                     'MuJoCo qfrc_actuator validates the specification (disagreement = machinery error)']
  os.makedirs(tlc.WORK, exist_ok=True)
  cfg = os.path.join(tlc.WORK, 'c11.cfg')
  tlc.write_cfg(cfg, constants={'Class': '"any"', 'MaxLinks': 3, 'NCases': 400 if q else 4000, 'SeedBase': core.seed_base(ctx, 11)}, invariants=INVS)
  dump = os.path.join(tlc.WORK, 'c11')
  res = tlc.run('Actuator', cfg, name='c11', dump=dump, seed=ctx.seed + 15, expect_ok=True, coverage=True)
  tlc.require_coverage(res, ['Compute'], 'c11')
  ctx.add_tlc(res, 'Actuator.tla')
  cases = [{'model': s['model'], 'acts': s['acts'], 'st': s['st'], 'out': s['out']} for s in done_states(dump + '.dump')]
  multi = 0
  for case, r in par.run('harness.drivers.c11', 'eval_case', cases):
    if 'brax_error' in r:
      ctx.violation(f'loads / to_tau raised: {r["brax_error"]}', {k: r[k] for k in ('xml', 'q', 'qd', 'ctrl')}, {'call': 'actuator.to_tau', 'predicate': 'raised'})
      continue
    nv = len(r['tau'])
    want = fn_to_list(case['out']['tau'], nv)
    na = len(case['acts'])
    ctx.traces += 1
    sites = [tuple(a['site']) for a in case['acts']]
    if len(set(sites)) < len(sites):
      multi += 1
    ctx.case(key=(r['xml'], tuple(r['ctrl']), tuple(r['q']), tuple(r['qd'])), nontrivial=na > 0,
             sample={'xml': r['xml'], 'ctrl': r['ctrl'], 'expected_tau': want} if len(ctx.samples) < 3 and na > 2 else None)
    if np.max(np.abs(np.array(want) - np.array(r['mj']))) > 1e-9 if nv else False:
      raise tlc.MachineryError(f'Actuator.tla and MuJoCo disagree: {want} vs {r["mj"]}\n{r["xml"]}\nctrl={r["ctrl"]} q={r["q"]} qd={r["qd"]}')
    info = {k: r[k] for k in ('xml', 'q', 'qd', 'ctrl')}
    if list(case['out']['qdid']) != list(r['qdid']) or list(case['out']['qid']) != list(r['qid']):
      ctx.violation(f'actuator indices q_id={r["qid"]} qd_id={r["qdid"]} differ from the specification '
                    f'{list(case["out"]["qid"])} {list(case["out"]["qdid"])}', info, {'call': 'mjcf.load_model', 'predicate': 'ids'})
      continue
    if nv and np.max(np.abs(np.array(want) - np.array(r['tau']))) > 1e-12:
      ctx.violation(f'to_tau = {r["tau"]} but the specification (and the reference engine) give {want}', info,
                    {'call': 'actuator.to_tau', 'predicate': 'value'})
      continue
    badalt = [(dt, t) for dt, t in r.get('alt', []) if nv and np.max(np.abs(np.array(want) - np.array(t))) > 1e-12]
    if badalt:
      ctx.violation(f'to_tau with the same controls given as {badalt[0][0]} = {badalt[0][1]}, specification {want}', info,
                    {'call': 'actuator.to_tau', 'predicate': 'value_dtype'})
      continue
    if any(dt == 'int32' for dt, _ in r.get('alt', [])):
      ctx.extra['integer_control_legs'] = ctx.extra.get('integer_control_legs', 0) + 1
    for k in range(na):
      wb = fn_to_list(case['out']['bumped'][k], nv)
      if np.max(np.abs(np.array(wb) - np.array(r['bumped'][k]))) > 1e-12:
        ctx.violation(f'to_tau with control {k} raised by 1/2 = {r["bumped"][k]}, specification {wb}', info,
                      {'call': 'actuator.to_tau', 'predicate': 'value_bumped'})
        break
  ctx.extra['cases_with_several_actuators_on_one_joint'] = multi
  ctx.exhaustive = False


def replay(ctx, path):
  with open(path) as f:
    body = json.load(f)
  print(json.dumps(body, indent=1)[:6000])
  ctx.seed, ctx.tier = body.get('seed', ctx.seed), body.get('tier', ctx.tier)
  ctx.quick = ctx.tier == 'quick'
  run(ctx)
