"""Rational part of C09: replay of SpatialRat.tla states into brax.math / brax.base."""
from __future__ import annotations

import math as pymath
import os
from fractions import Fraction

import numpy as np

from harness import tlaval, tlc
from harness.drivers import c09

RAT_INVS = ['UnitQuaternions', 'RotationOrthogonal', 'ToLocalInvertsDo', 'InertiaTransportPreservesEnergy',
            'EulerIsAxisProduct', 'AxisAngle', 'FromToRotates']
TOL = 1e-12


def f(r):
  return r[0] / r[1]


def fv(v):
  return [f(x) for x in v]


def fm(m):
  return [fv(r) for r in m]


def half_angle(h):
  return 2.0 * pymath.atan2(h[1] / h[2], h[0] / h[2])


def run_rat(ctx):
  import jax
  jax.config.update('jax_enable_x64', True)
  import jax.numpy as jp
  from brax import base, math
  cfg = os.path.join(tlc.WORK, 'c09-rat.cfg')
  fams = '{"unit", "inertia", "euler", "axis", "fromto"}'
  tlc.write_cfg(cfg, constants={'Families': fams, 'NSample': 4 if ctx.quick else 40}, invariants=RAT_INVS)
  dump = os.path.join(tlc.WORK, 'c09-rat')
  res = tlc.run('SpatialRat', cfg, name='c09-rat', dump=dump, seed=ctx.seed + 6, expect_ok=True, coverage=True)
  ctx.add_tlc(res, 'SpatialRat rational families')
  n = {}

  def close(a, b, tol=TOL):
    a, b = np.asarray(a, np.float64), np.asarray(b, np.float64)
    return a.shape == b.shape and np.all(np.abs(a - b) <= tol * (1 + np.abs(b)))

  def viol(fam, name, got, want, inp):
    ctx.violation(f'{fam}: {name} returned {np.asarray(got).tolist()} but the specification computes '
                  f'{np.asarray(want).tolist()}', {'family': fam, 'primitive': name, 'input': inp,
                                                   'got': np.asarray(got).tolist(), 'want': np.asarray(want).tolist()},
                  {'call': name, 'predicate': 'value'})

  rot_j = jax.jit(math.rotate)
  m3_j = jax.jit(math.quat_to_3x3)
  for s in c09.done_states(dump + '.dump'):
    fam, inp, r = s['fam'], s['inp'], s['res']
    n[fam] = n.get(fam, 0) + 1
    checks = []
    if fam == 'unit':
      q, q2 = jp.asarray(fv(inp['q'])), jp.asarray(fv(inp['q2']))
      p, v = jp.asarray(np.asarray(inp['p'], np.float64)), jp.asarray(np.asarray(inp['v'], np.float64))
      m3 = m3_j(q)
      checks += [('quat_to_3x3(q)', m3, fm(r['m3'])), ('rotate(v,q)', rot_j(v, q), fv(r['rot'])),
                 ('quat_to_3x3(q)@v', m3 @ v, fv(r['mv'])),
                 ('quat_to_3x3(q)@quat_to_3x3(q).T', m3 @ m3.T, fm(r['mmt'])),
                 ('inv_rotate(rotate(v,q),q)', math.inv_rotate(rot_j(v, q), q), fv(r['back']))]
      t, b = base.Transform(pos=p, rot=q), base.Transform(pos=v, rot=q2)
      tb = t.do(b)
      loc = tb.to_local(t)
      checks += [('t.do(b).pos', tb.pos, fv(r['tb']['pos'])), ('t.do(b).rot', tb.rot, fv(r['tb']['rot'])),
                 ('t.do(b).to_local(t).pos', loc.pos, fv(r['loc']['pos'])),
                 ('t.do(b).to_local(t).rot', loc.rot, fv(r['loc']['rot']))]
    elif fam == 'inertia':
      q = jp.asarray(fv(inp['q']))
      p = jp.asarray(np.asarray(inp['p'], np.float64))
      I = jp.asarray(np.array([[inp['ixx'], inp['ixy'], inp['ixz']], [inp['ixy'], inp['iyy'], inp['iyz']],
                               [inp['ixz'], inp['iyz'], inp['izz']]], np.float64))
      it = base.Inertia(transform=base.Transform.zero(), i=I, mass=jp.float64(inp['mass']))
      t = base.Transform(pos=p, rot=q)
      it2 = t.do(it)
      mL = base.Motion(ang=jp.asarray(np.asarray(inp['w'], np.float64)), vel=jp.asarray(np.asarray(inp['v'], np.float64)))
      mW = t.inv_do(mL)
      fW = it2.mul(mW)
      fL = it.mul(mL)
      checks += [('t.do(Inertia).i', it2.i, fm(r['i1'])), ('t.do(Inertia).transform.pos', it2.transform.pos, fv(r['h'])),
                 ('t.do(Inertia).mass', it2.mass, inp['mass']),
                 ('t.inv_do(Motion).ang', mW.ang, fv(r['wW'])), ('t.inv_do(Motion).vel', mW.vel, fv(r['vW'])),
                 ('Inertia.mul.ang', fW.ang, fv(r['fa'])), ('Inertia.mul.vel', fW.vel, fv(r['fv'])),
                 ('Inertia.mul (local).ang', fL.ang, fv(r['fLa'])), ('Inertia.mul (local).vel', fL.vel, fv(r['fLv'])),
                 ('2 KE local', mL.dot(fL), f(r['keL'])), ('2 KE after transport', mW.dot(fW), f(r['keW']))]
    elif fam == 'euler':
      ang = [half_angle(h) for h in inp['h']]
      deg = jp.asarray([a * 180.0 / pymath.pi for a in ang])
      q = math.euler_to_quat(deg)
      checks += [('euler_to_quat', q, fv(r['q']))]
      if all(abs(a) < 1.4 for a in ang):
        checks += [('quat_to_euler(euler_to_quat(e))', math.quat_to_euler(q), ang)]
    elif fam == 'axis':
      a = half_angle(inp['h'])
      q = math.quat_rot_axis(jp.asarray(fv(inp['axis'])), jp.float64(a))
      checks += [('quat_rot_axis', q, fv(r['q']))]
    elif fam == 'fromto':
      v1, v2 = jp.asarray(fv(inp['v1'])), jp.asarray(fv(inp['v2']))
      q = np.asarray(math.from_to(v1, v2))
      d = np.asarray(fv(r['d']))
      d2 = f(r['d2'])
      checks += [('|from_to|', float(np.linalg.norm(q)), 1.0), ('rotate(v1, from_to(v1,v2))', rot_j(v1, jp.asarray(q)), fv(inp['v2']))]
      if d2 > 1e-9:  # not antiparallel: the direction is determined
        checks += [('from_to direction', q, (d / pymath.sqrt(d2)).tolist())]
    bad = [(nm, got, want) for nm, got, want in checks if not close(got, want)]
    nontriv = fam != 'unit' or inp['q'] != ((1, 1), (0, 1), (0, 1), (0, 1))
    ctx.case(key=(fam, c09._freeze(inp)), nontrivial=nontriv,
             sample={'family': fam, 'input': inp} if n[fam] == 2 else None)
    ctx.traces += 1
    for nm, got, want in bad[:2]:
      viol(fam, nm, got, want, inp)
  ctx.extra.setdefault('states_replayed_per_family', {}).update(n)
  constructor_boundaries(ctx)


def constructor_boundaries(ctx):
  """Boundary regions of the constructors, where the oracle is the postcondition the property states ("produce the
  rotation they describe"): nearly parallel from_to pairs, Euler angles next to the +-90 degree pitch, and the numpy
  variants must not alter their arguments."""
  import jax.numpy as jp
  from brax import math
  rs = np.random.RandomState(ctx.seed + 17)
  nbad = 0
  for theta in [0.0, 1e-9, 1e-7, 1e-5, 1e-4, 3e-4, 1e-3, 2e-3, 1e-2, 0.1]:
    for _ in range(4):
      v1 = rs.randn(3)
      v1 /= np.linalg.norm(v1)
      perp = np.cross(v1, rs.randn(3))
      perp /= np.linalg.norm(perp)
      v2 = np.cos(theta) * v1 + np.sin(theta) * np.cross(perp, v1)
      q = np.asarray(math.from_to(jp.asarray(v1), jp.asarray(v2)))
      got = np.asarray(math.rotate(jp.asarray(v1), jp.asarray(q)))
      ctx.case(key=('from_to_near', theta, tuple(v1)), nontrivial=theta > 0)
      if np.max(np.abs(got - v2)) > 1e-12 or abs(np.linalg.norm(q) - 1) > 1e-12:
        ctx.violation(f'from_to for vectors {theta} rad apart: rotate(v1, q) misses v2 by {np.max(np.abs(got - v2)):.3e}',
                      {'v1': v1.tolist(), 'v2': v2.tolist(), 'q': q.tolist()}, {'call': 'from_to', 'predicate': 'near_parallel'})
  for pitch_deg in [89.0, 89.9, 89.95, 89.99, 89.999, -89.0, -89.9, -89.95, -89.99, -89.999]:
    for _ in range(3):
      e = np.array([rs.uniform(-170, 170), pitch_deg, rs.uniform(-170, 170)])
      q = np.asarray(math.euler_to_quat(jp.asarray(e)))
      e2 = np.asarray(math.quat_to_euler(jp.asarray(q))) * 180 / np.pi
      q2 = np.asarray(math.euler_to_quat(jp.asarray(e2)))
      err = min(np.max(np.abs(q - q2)), np.max(np.abs(q + q2)))
      ctx.case(key=('gimbal', tuple(e)), nontrivial=True)
      if err > 1e-6:   # the two representations must describe the SAME rotation, however ill-conditioned the angles are
        ctx.violation(f'quat_to_euler near pitch {pitch_deg} deg does not describe the rotation it was given: error {err:.3e}',
                      {'euler_deg': e.tolist(), 'quat': q.tolist(), 'euler_back_deg': e2.tolist()},
                      {'call': 'quat_to_euler', 'predicate': 'gimbal'})
  for _ in range(20):
    v = rs.randint(-9, 10, size=3).astype(float)
    u = rs.randint(-9, 10, size=4).astype(float)
    w = rs.randint(-9, 10, size=4).astype(float)
    v0, u0, w0 = v.copy(), u.copy(), w.copy()
    r1 = math.rotate_np(v, u)
    r2 = math.rotate_np(v, u)
    qm = math.quat_mul_np(u, w)
    ctx.case(key=('np_pure', tuple(v), tuple(u)), nontrivial=True)
    if not (np.array_equal(v, v0) and np.array_equal(u, u0) and np.array_equal(w, w0) and np.array_equal(r1, r2)):
      ctx.violation('rotate_np / quat_mul_np altered their arguments (or are not functions of them)',
                    {'vec_before': v0.tolist(), 'vec_after': v.tolist(), 'quat': u0.tolist()}, {'call': 'rotate_np', 'predicate': 'mutation'})
  # the numpy variants with integer-typed operands (a literal [0, 1, 0, 0] in a model builder) against half-integer floats
  def qmul(a, b):
    return np.array([a[0] * b[0] - a[1] * b[1] - a[2] * b[2] - a[3] * b[3], a[0] * b[1] + a[1] * b[0] + a[2] * b[3] - a[3] * b[2],
                     a[0] * b[2] - a[1] * b[3] + a[2] * b[0] + a[3] * b[1], a[0] * b[3] + a[1] * b[2] - a[2] * b[1] + a[3] * b[0]], float)
  for k in range(24):
    ui = rs.randint(-3, 4, size=4)
    wf = rs.randint(-7, 8, size=4) / 2.0
    vi = rs.randint(-5, 6, size=3)
    variants = [(ui.astype(np.int64), wf), (wf, ui.astype(np.int32)), (ui.astype(np.int64), ui[::-1].astype(np.int32).copy())]
    for a, b in variants:
      got = np.asarray(math.quat_mul_np(a, b), float)
      want = qmul(a.astype(float), b.astype(float))
      ctx.case(key=('np_dtype', tuple(a.tolist()), tuple(b.tolist()), str(a.dtype), str(b.dtype)), nontrivial=True)
      if got.shape != (4,) or np.max(np.abs(got - want)) > 1e-12:
        ctx.violation(f'quat_mul_np({a.tolist()} [{a.dtype}], {b.tolist()} [{b.dtype}]) = {got.tolist()}, the quaternion product is {want.tolist()}',
                      {'u': a.tolist(), 'v': b.tolist()}, {'call': 'quat_mul_np', 'predicate': 'dtype'})
    q = wf if np.any(wf) else np.array([1.0, 0, 0, 0])
    got = np.asarray(math.rotate_np(vi.astype(np.int64), q), float)
    want = qmul(qmul(q, np.concatenate([[0.0], vi.astype(float)])), q * np.array([1, -1, -1, -1]))[1:]
    if np.max(np.abs(got - want)) > 1e-9:
      ctx.violation(f'rotate_np({vi.tolist()} [int64], {q.tolist()}) = {got.tolist()}, q v q* is {want.tolist()}',
                    {'v': vi.tolist(), 'q': q.tolist()}, {'call': 'rotate_np', 'predicate': 'dtype'})
  # nearly (not exactly) unit quaternions, as hand-typed or float32-drifted ones are: composition stays associative and
  # compatible with application (polynomial identities, so float64 agrees to round-off whatever the norm is)
  from brax import base
  for k in range(40):
    ts = []
    for _ in range(3):
      qq = rs.randn(4)
      qq = qq / np.linalg.norm(qq) * (1.0 + rs.choice([3e-7, 5e-6, 7e-5, 4e-4, -2e-4, 0.0]))
      ts.append(base.Transform(pos=jp.asarray(rs.randn(3)), rot=jp.asarray(qq)))
    a, b, c = ts
    v = jp.asarray(rs.randn(3))
    left, right = a.do(b).do(c), a.do(b.do(c))
    ap1 = a.do(b).do(base.Transform(pos=v, rot=jp.asarray([1.0, 0, 0, 0]))).pos
    ap2 = a.do(b.do(base.Transform(pos=v, rot=jp.asarray([1.0, 0, 0, 0])))).pos
    err = max(float(np.max(np.abs(np.asarray(left.pos) - np.asarray(right.pos)))), float(np.max(np.abs(np.asarray(left.rot) - np.asarray(right.rot)))),
              float(np.max(np.abs(np.asarray(ap1) - np.asarray(ap2)))))
    ctx.case(key=('near_unit', k), nontrivial=True)
    if not err <= 1e-12:
      ctx.violation(f'Transform composition with nearly unit quaternions (norms {[float(np.linalg.norm(np.asarray(t.rot))) for t in ts]}) is not '
                    f'associative / compatible with application: defect {err:.3e}',
                    {'transforms': [{'pos': np.asarray(t.pos).tolist(), 'rot': np.asarray(t.rot).tolist()} for t in ts]},
                    {'call': 'Transform.do', 'predicate': 'near_unit'})

