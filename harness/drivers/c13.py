"""C13 — fusing jointless bodies preserves geometry.  Fuse.tla (tree rewriting over exact rationals, pose preserved at
every step) is model-checked; every enumerated tree is rendered to MJCF, pushed through brax's fuse_bodies, and the
result evaluated by MuJoCo forward kinematics against the specification's world poses."""
from __future__ import annotations

import json
import os
import re
from fractions import Fraction

import numpy as np

from harness import core, tlaval, tlc

INVS = ['PosePreserved', 'WellFormed', 'NoStuck']
TOL = 5e-6


def fr(r):
  return Fraction(r[0], r[1])


def fstr(v):
  return ' '.join(repr(float(fr(x))) for x in v)


def is_id(q):
  return [fr(x) for x in q] == [1, 0, 0, 0]


def is_zero(p):
  return all(fr(x) == 0 for x in p)


def render(nodes):
  """Original tree -> MJCF text."""
  kids = {}
  for i, n in enumerate(nodes, 1):
    kids.setdefault(n['parent'], []).append(i)

  def pose_attrs(n):
    a = ''
    if not is_zero(n['pos']):
      a += f' pos="{fstr(n["pos"])}"'
    if not is_id(n['quat']):
      a += f' quat="{fstr(n["quat"])}"'
    return a

  def emit(i, ind):
    n = nodes[i - 1]
    k = n['kind']
    sp = ' ' * ind
    if k in ('J', 'W'):
      out = [f'{sp}<body name="B{i}"{pose_attrs(n)}>']
      if k == 'J':
        out.append(f'{sp}  <joint name="Jn{i}" type="hinge" axis="0 0 1"/>')
      for c in kids.get(i, []):
        out += emit(c, ind + 2)
      out.append(f'{sp}</body>')
      return out
    if k == 'G':
      return [f'{sp}<geom name="G{i}" type="box" size="0.05 0.03 0.02" mass="{0.5 + 0.25 * (i % 3)}"{pose_attrs(n)}/>']
    if k == 'F' and n.get('as_site'):      # MJCF allows the from-to shorthand on sites too
      return [f'{sp}<site name="F{i}" type="capsule" size="0.02" fromto="{fstr(n["ft"][0])} {fstr(n["ft"][1])}"/>']
    if k == 'F':
      return [f'{sp}<geom name="F{i}" type="capsule" size="0.02" mass="0.3" fromto="{fstr(n["ft"][0])} {fstr(n["ft"][1])}"/>']
    if k == 'S':
      return [f'{sp}<site name="S{i}"{pose_attrs(n)}/>']
    raise ValueError(k)

  body = []
  for c in kids.get(0, []):
    body += emit(c, 4)
  return ('<mujoco>\n  <compiler angle="radian"/>\n  <worldbody>\n' + '\n'.join(body) +
          '\n  </worldbody>\n</mujoco>\n')


def mj_eval(xml, nodes):
  """World observables of every named element at the zero configuration, plus mass-related quantities."""
  import mujoco
  m = mujoco.MjModel.from_xml_string(xml)
  d = mujoco.MjData(m)
  mujoco.mj_forward(m, d)
  obs = {}
  for i, n in enumerate(nodes, 1):
    k = n['kind']
    if k == 'J':
      bid = mujoco.mj_name2id(m, mujoco.mjtObj.mjOBJ_BODY, f'B{i}')
      if bid < 0:
        obs[i] = None
        continue
      obs[i] = ('pose', d.xpos[bid].copy(), d.xquat[bid].copy())
    elif k in ('G', 'F'):
      gid = mujoco.mj_name2id(m, mujoco.mjtObj.mjOBJ_GEOM, f'{k}{i}')
      if gid < 0 and k == 'F':
        sid = mujoco.mj_name2id(m, mujoco.mjtObj.mjOBJ_SITE, f'F{i}')
        if sid >= 0:
          ax = d.site_xmat[sid].reshape(3, 3)[:, 2]
          h = m.site_size[sid][1]
          obs[i] = ('ends', d.site_xpos[sid] - h * ax, d.site_xpos[sid] + h * ax)
          continue
      if gid < 0:
        obs[i] = None
        continue
      q = np.zeros(4)
      mujoco.mju_mat2Quat(q, d.geom_xmat[gid])
      if k == 'G':
        obs[i] = ('pose', d.geom_xpos[gid].copy(), q)
      else:
        ax = d.geom_xmat[gid].reshape(3, 3)[:, 2]
        h = m.geom_size[gid][1]
        obs[i] = ('ends', d.geom_xpos[gid] - h * ax, d.geom_xpos[gid] + h * ax)
    elif k == 'S':
      sid = mujoco.mj_name2id(m, mujoco.mjtObj.mjOBJ_SITE, f'S{i}')
      if sid < 0:
        obs[i] = None
        continue
      q = np.zeros(4)
      mujoco.mju_mat2Quat(q, d.site_xmat[sid])
      obs[i] = ('pose', d.site_xpos[sid].copy(), q)
  # joint-space inertia, ordered by joint name, and total mass: masses/inertias of the moving bodies
  M = np.zeros((m.nv, m.nv))
  mujoco.mj_fullM(m, d, M)
  order = []
  for i, n in enumerate(nodes, 1):
    if n['kind'] == 'J':
      jid = mujoco.mj_name2id(m, mujoco.mjtObj.mjOBJ_JOINT, f'Jn{i}')
      order.append(m.jnt_dofadr[jid])
  M = M[np.ix_(order, order)] if order else M
  moving_mass = {}
  for i, n in enumerate(nodes, 1):
    if n['kind'] == 'J':
      bid = mujoco.mj_name2id(m, mujoco.mjtObj.mjOBJ_BODY, f'B{i}')
      moving_mass[i] = (float(m.body_subtreemass[bid]), d.subtree_com[bid].copy())
  return obs, M, moving_mass


def same_obs(a, b):
  if a is None or b is None:
    return False
  if a[0] != b[0]:
    return False
  if a[0] == 'pose':
    qa, qb = np.asarray(a[2]), np.asarray(b[2])
    return (np.max(np.abs(np.asarray(a[1]) - np.asarray(b[1]))) <= TOL and
            min(np.max(np.abs(qa - qb)), np.max(np.abs(qa + qb))) <= TOL)
  e1 = np.max(np.abs(np.asarray(a[1]) - np.asarray(b[1]))) + np.max(np.abs(np.asarray(a[2]) - np.asarray(b[2])))
  e2 = np.max(np.abs(np.asarray(a[1]) - np.asarray(b[2]))) + np.max(np.abs(np.asarray(a[2]) - np.asarray(b[1])))
  return min(e1, e2) <= 2 * TOL


def spec_obs(w):
  if w[0] == 'pose':
    return ('pose', np.array([float(fr(x)) for x in w[1]]), np.array([float(fr(x)) for x in w[2]]))
  return ('ends', np.array([float(fr(x)) for x in w[1]]), np.array([float(fr(x)) for x in w[2]]))


def weld_tags(nodes, i):
  """Structural description of the jointless ancestors of node i that the violation depends on."""
  kinds = set()
  p = nodes[i - 1]['parent']
  while p:
    n = nodes[p - 1]
    if n['kind'] == 'W':
      kinds.add(('pos' if not is_zero(n['pos']) else '') + ('quat' if not is_id(n['quat']) else '') or 'neither')
    p = n['parent']
  return kinds


def check_tree(ctx, st, label):
  from brax.io import mjcf
  nodes = [dict(n) for n in st['src']]
  xml = render(nodes)
  want = {i: spec_obs(w) for i, w in enumerate(st['wp0'], 1) if nodes[i - 1]['kind'] != 'W'}
  o_obs, o_M, o_mass = mj_eval(xml, nodes)
  for i, w in want.items():
    if not same_obs(o_obs[i], w):
      raise tlc.MachineryError(f'specification and MuJoCo disagree on the ORIGINAL document for node {i}: '
                               f'{o_obs[i]} vs {w}\n{xml}')
  fused_xml = mjcf.fuse_bodies(xml)
  if re.search(r'<body name="B(\d+)"', fused_xml):
    left = [int(x) for x in re.findall(r'<body name="B(\d+)"', fused_xml)]
    if any(nodes[j - 1]['kind'] == 'W' for j in left):
      ctx.violation('a jointless body survived fuse_bodies', {'xml': xml, 'fused': fused_xml},
                    {'call': 'fuse_bodies', 'predicate': 'not_fused'})
  try:
    f_obs, f_M, f_mass = mj_eval(fused_xml, nodes)
  except Exception as e:  # the fused document no longer compiles in the reference engine although the original does
    ctx.violation(f'fuse_bodies produced a document the reference engine rejects: {type(e).__name__}: {str(e)[:200]}',
                  {'xml': xml, 'fused_xml': fused_xml}, {'call': 'fuse_bodies', 'predicate': 'invalid_output'})
    return
  wk = sorted({('pos' if not is_zero(n['pos']) else '') + ('quat' if not is_id(n['quat']) else '') or 'neither'
               for n in nodes if n['kind'] == 'W'})
  ctx.case(key=xml, nontrivial=any(k != 'neither' for k in wk),
           sample={'cfg': label, 'weld_pose_kinds': wk, 'xml': xml} if len(ctx.samples) < 3 and 'quat' in ''.join(wk) else None)
  ctx.traces += 1
  bad = [i for i, w in want.items() if not same_obs(f_obs[i], w)]
  if bad:
    i = bad[0]
    kinds = set()
    for j in bad:
      kinds |= weld_tags(nodes, j)
    only_quat_only = bool(kinds) and all(j_k == 'quat' for j_k in
                                         set().union(*[{k for k in weld_tags(nodes, j) if k != 'neither' and k != 'pos' and k != 'posquat'} or {'x'} for j in bad]))
    ctx.violation(f'fuse_bodies moved element {nodes[i - 1]["kind"]}{i}: fused {f_obs[i]} vs original/specification '
                  f'{want[i]}; jointless ancestors carry {sorted(kinds)}',
                  {'xml': xml, 'fused_xml': fused_xml, 'moved': bad},
                  {'call': 'fuse_bodies', 'predicate': 'quat_only_body' if only_quat_only else 'moved'})
    return
  if o_M.shape != f_M.shape or np.max(np.abs(o_M - f_M)) > 1e-5 * (1 + np.max(np.abs(o_M))):
    ctx.violation(f'fuse_bodies changed the joint-space inertia of the moving bodies:\n{o_M}\nvs\n{f_M}',
                  {'xml': xml, 'fused_xml': fused_xml}, {'call': 'fuse_bodies', 'predicate': 'inertia'})
  for i in o_mass:
    if abs(o_mass[i][0] - f_mass[i][0]) > 1e-6 or np.max(np.abs(o_mass[i][1] - f_mass[i][1])) > TOL:
      ctx.violation(f'fuse_bodies changed mass / centre of mass of moving body B{i}: {o_mass[i]} vs {f_mass[i]}',
                    {'xml': xml, 'fused_xml': fused_xml}, {'call': 'fuse_bodies', 'predicate': 'mass'})


def relational_documents(ctx, states, r):
  """The same tree shapes with poses outside the decimal-exact tables: offsets of tens to thousands of metres, generic
  float rotations, and tiny rotations written with six decimals (so that w prints as 1.000000).  Oracle: MuJoCo on the
  original document, exactly as the property states."""
  from brax.io import mjcf
  import copy
  n = 0
  for st in states:
    nodes = [dict(x) for x in st['src']]
    mode = r.choice(['far', 'generic', 'tiny', 'elided', 'elided'])
    def P(v):
      return tuple((int(round(x * 10**6)), 10**6) for x in v)
    zero, ident = ((0, 1),) * 3, ((1, 1), (0, 1), (0, 1), (0, 1))
    for nd in nodes:
      if nd['kind'] == 'F':
        # from-to capsules are sometimes written as sites
        if r.random() < 0.4:
          nd['as_site'] = True
        continue
      if mode == 'elided':
        # documents that rely on the MJCF defaults: elements without a pos (and quat) attribute, jointless bodies that
        # are pure translations or pure rotations
        if nd['kind'] in ('G', 'S') and r.random() < 0.6:
          nd['pos'] = zero
          if r.random() < 0.5:
            nd['quat'] = ident
        if nd['kind'] == 'W':
          if r.random() < 0.5:
            nd['quat'] = ident
          elif r.random() < 0.3:
            nd['pos'] = zero
      if mode == 'far' and r.random() < 0.5:
        nd['pos'] = P([r.choice([12.5, -120.25, 1203.125, 37.0]) * r.choice([1, -1]), r.uniform(-1, 1), r.uniform(-150, 150)])
      if mode == 'generic':
        q = np.array([r.gauss(0, 1) for _ in range(4)])
        q /= np.linalg.norm(q)
        if nd['kind'] != 'W' or not is_id(nd['quat']):
          nd['quat'] = P(q)
      if mode == 'tiny' and nd['kind'] == 'W' and not is_id(nd['quat']):
        nd['quat'] = P([1.0, r.choice([0.00045, 0.0, -0.0003]), 0.0, r.choice([0.0006, 0.0002])])     # |q| = 1 + 3e-7
    xml = render(nodes)
    try:
      o_obs, o_M, o_mass = mj_eval(xml, nodes)
    except Exception:  # a generated document the reference engine itself refuses: skip
      continue
    fused = mjcf.fuse_bodies(xml)
    n += 1
    ctx.case(key=xml, nontrivial=True, sample={'mode': mode, 'xml': xml} if n == 3 else None)
    try:
      f_obs, f_M, f_mass = mj_eval(fused, nodes)
    except Exception as e:
      ctx.violation(f'fuse_bodies produced a document the reference engine rejects ({mode}): {str(e)[:200]}',
                    {'xml': xml, 'fused_xml': fused}, {'call': 'fuse_bodies', 'predicate': 'invalid_output'})
      continue
    # %f keeps 6 decimals: 5e-6 per coordinate, compounded over up to 3 fused levels and lever arms
    tol = 5e-5 if mode != 'far' else 2e-4
    bad = []
    for i in o_obs:
      a, b = o_obs[i], f_obs.get(i)
      if a is None:
        continue
      if b is None or a[0] != b[0]:
        bad.append(i)
        continue
      if a[0] == 'pose':
        dq = min(np.max(np.abs(np.asarray(a[2]) - np.asarray(b[2]))), np.max(np.abs(np.asarray(a[2]) + np.asarray(b[2]))))
        if np.max(np.abs(np.asarray(a[1]) - np.asarray(b[1]))) > tol or dq > 5e-5:
          bad.append(i)
      else:
        e1 = max(np.max(np.abs(np.asarray(a[1]) - np.asarray(b[1]))), np.max(np.abs(np.asarray(a[2]) - np.asarray(b[2]))))
        e2 = max(np.max(np.abs(np.asarray(a[1]) - np.asarray(b[2]))), np.max(np.abs(np.asarray(a[2]) - np.asarray(b[1]))))
        if min(e1, e2) > tol:
          bad.append(i)
    if bad:
      i = bad[0]
      ctx.violation(f'fuse_bodies moved element {nodes[i - 1]["kind"]}{i} ({mode} poses): fused {f_obs.get(i)} vs original {o_obs[i]}',
                    {'xml': xml, 'fused_xml': fused, 'moved': bad}, {'call': 'fuse_bodies', 'predicate': f'moved_{mode}'})
  ctx.extra['relational_documents'] = n


def run(ctx):
  q = ctx.quick
  ctx.rule = ('TLC enumerates 7 tree shapes (1-3 levels of jointless bodies under the world / under jointed bodies / as '
              'siblings, holding pos-quat geoms, from-to capsules, sites and jointed children) x every pattern of '
              '{neither,pos,quat,both} on the jointless bodies x random decimal-exact poses, and checks pose preservation '
              'at every rewriting step; each tree is rendered, fused by brax and evaluated by MuJoCo. '
              'non-trivial = some jointless body has a non-identity pose.')
  ctx.assumptions = ['MuJoCo forward kinematics is the observer (as the property states); the specification is first '
                     'validated against MuJoCo on the ORIGINAL document (disagreement = machinery error)',
                     'tolerance 5e-6 = grain of the "%f" re-serialisation in _offset',
                     'masses/inertias compared through the joint-space inertia matrix, subtree mass and subtree COM']
  cfg = os.path.join(tlc.WORK, 'c13.cfg')
  os.makedirs(tlc.WORK, exist_ok=True)
  shapes = '{"s1","s2","s3","j1","j2","j3","m1"}'
  tlc.write_cfg(cfg, constants={'ShapeIds': shapes, 'NPose': 1 if q else 8, 'SeedBase': core.seed_base(ctx, 13)}, invariants=INVS)
  dump = os.path.join(tlc.WORK, 'c13')
  res = tlc.run('Fuse', cfg, name='c13', dump=dump, seed=ctx.seed + 7, expect_ok=True, coverage=True)
  tlc.require_coverage(res, ['Snapshot', 'Next'], 'c13')  # Next = \E b : FuseOne(b)
  ctx.add_tlc(res, 'Fuse.tla')
  with open(dump + '.dump') as f:
    txt = f.read()
  n = 0
  sts = []
  for block in re.split(r'^State \d+:\n', txt, flags=re.M)[1:]:
    if 'nfused = 0' in block and 'wp0 = <<>>' not in block:
      st = tlaval.parse_state(block.strip())
      check_tree(ctx, st, 'c13')
      sts.append(st)
      n += 1
  ctx.extra['trees_replayed'] = n
  r = core.rng(ctx, 13)
  relational_documents(ctx, r.sample(sts, min(len(sts), 150 if q else 1500)), r)
  ctx.exhaustive = False


def replay(ctx, path):
  with open(path) as f:
    body = json.load(f)
  print(json.dumps(body, indent=1)[:6000])
  ctx.seed, ctx.tier = body.get('seed', ctx.seed), body.get('tier', ctx.tier)
  ctx.quick = ctx.tier == 'quick'
  run(ctx)
