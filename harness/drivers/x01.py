"""X01 (coverage beyond the listed properties, DESIGN §9 S1): math.solve_pgs equals the projected Gauss-Seidel state
machine Pgs.tla (exact rationals): non-negativity, row complementarity and energy decrease are model-checked, final
iterates replayed into the real function."""
from __future__ import annotations

import os
import re

import numpy as np

from harness import core, render, tlaval, tlc


def run(ctx):
  import jax
  jax.config.update('jax_enable_x64', True)
  import jax.numpy as jp
  from brax import math
  iters = 2
  cfg = os.path.join(tlc.WORK, 'x01.cfg')
  os.makedirs(tlc.WORK, exist_ok=True)
  tlc.write_cfg(cfg, constants={'NCases': 200 if ctx.quick else 3000, 'NumIters': iters, 'SeedBase': core.seed_base(ctx, 91)},
                invariants=['NonNegative', 'RowSolved'], properties=['EnergyDecreases'])
  dump = os.path.join(tlc.WORK, 'x01')
  res = tlc.run('Pgs', cfg, name='x01', dump=dump, expect_ok=True)
  ctx.add_tlc(res, 'Pgs.tla')
  ctx.rule = 'symmetric diagonally dominant 2x2/3x3 systems; the iterate after 2 sweeps must equal math.solve_pgs(a, b, 2)'
  for s in tlaval.parse_dump(dump + '.dump'):
    it = iters if len(s['b']) == 2 else 1
    if s['sweep'] != it + 1 or s['row'] != 1:
      continue
    a = np.array([[render.fl(v) for v in row] for row in s['a']])
    b = np.array([render.fl(v) for v in s['b']])
    want = np.array([render.fl(v) for v in s['x']])
    got = np.asarray(math.solve_pgs(jp.asarray(a), jp.asarray(b), it))
    ctx.traces += 1
    ctx.case(key=(a.tobytes(), b.tobytes()), nontrivial=bool(np.any(want > 0)), sample={'a': a.tolist(), 'b': b.tolist(), 'x': want.tolist()}
             if len(ctx.samples) < 2 and np.any(want > 0) else None)
    if np.max(np.abs(got - want)) > 1e-12:
      ctx.violation(f'solve_pgs {got.tolist()} != specification {want.tolist()}', {'a': a.tolist(), 'b': b.tolist()},
                    {'call': 'math.solve_pgs', 'predicate': 'value'})


def replay(ctx, path):
  run(ctx)
