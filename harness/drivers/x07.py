"""X07 (coverage beyond the listed properties): the array-like operations of brax.base.Base (take / slice / concatenate /
index_set / index_sum / select / arithmetic) on a real Transform equal BaseTree.tla row for row, leaf for leaf."""
from __future__ import annotations

import os

import numpy as np

from harness import core, tlaval, tlc

INVS = ['SliceConcat', 'TakeWraps', 'ScatterAddConserves', 'SetThenTake', 'SelectComplement']


def run(ctx):
  import jax
  jax.config.update('jax_enable_x64', True)
  import jax.numpy as jp
  from brax import base
  cfg = os.path.join(tlc.WORK, 'x07.cfg')
  os.makedirs(tlc.WORK, exist_ok=True)
  tlc.write_cfg(cfg, constants={'NCases': 600 if ctx.quick else 8000, 'SeedBase': core.seed_base(ctx, 97)}, invariants=INVS)
  dump = os.path.join(tlc.WORK, 'x07')
  res = tlc.run('BaseTree', cfg, name='x07', dump=dump, expect_ok=True)
  ctx.add_tlc(res, 'BaseTree.tla')
  ctx.rule = ('seeded instances (1-5 rows; gather indices incl. negative and >= n; scatter-add with duplicates; distinct scatter-set '
              'indices; 0/1 masks): each operation on a real Transform (pos, rot leaves derived from the row value) must equal the '
              'specification exactly. non-trivial = an instance whose scatter-add indices contain a duplicate.')

  def tree(rows):
    r = np.asarray(rows, float).reshape(-1)
    return base.Transform(pos=jp.asarray(np.stack([r, 2 * r, 3 * r], -1).reshape(-1, 3)),
                          rot=jp.asarray(np.stack([r, -r, r + 1, 0 * r], -1).reshape(-1, 4)))

  def rows_of(t, affine=True):
    pos, rot = np.asarray(t.pos), np.asarray(t.rot)
    r = pos[:, 0]
    return r, bool(np.array_equal(pos, np.stack([r, 2 * r, 3 * r], -1)) and np.array_equal(rot[:, :2], np.stack([r, -r], -1)))

  k = 0
  for s in tlaval.parse_dump(dump + '.dump'):
    i = s['inst']
    x, o = tree(i['x']), tree(i['o'])
    m = len(i['sidx'])
    od = tree(i['od'])
    dm = len(i['didx'])
    ops = {
        'take': lambda: x.take(jp.asarray(np.array(i['widx'], int))),
        'slice': lambda: x.slice(i['b'], i['e']),
        'concat': lambda: x.concatenate(o),
        'iset': lambda: x.index_set(jp.asarray(np.array(i['didx'], int)), tree(i['od'][:dm])),
        'isum': lambda: x.index_sum(jp.asarray(np.array(i['sidx'], int)), od),
        'select': lambda: x.select(o, jp.asarray(np.array(i['c'], float))),
        'add': lambda: x + o, 'sub': lambda: x - o, 'mul3': lambda: x * 3.0, 'neg': lambda: -x,
    }
    k += 1
    ctx.traces += 1
    ctx.case(key=repr(i), nontrivial=len(set(i['sidx'])) < m, sample={k2: list(v) if isinstance(v, tuple) else v for k2, v in i.items()} if k == 100 else None)
    for name, f in ops.items():
      want = np.asarray(list(i[name]), float)
      try:
        got = f()
        r, coherent = rows_of(got)
      except Exception as e:  # pylint: disable=broad-except
        ctx.violation(f'Base.{name} raised: {type(e).__name__}: {str(e)[:200]}', {'instance': repr(i)}, {'call': f'Base.{name}', 'predicate': 'raised'})
        break
      # rot's third leaf column is r + 1 for plain rows; sums / differences / scalings change that offset, so only the
      # first two columns (linear in r) are compared for coherence
      if r.shape != want.shape or not np.array_equal(r, want) or not coherent:
        ctx.violation(f'Base.{name}: rows {r.tolist()} (leaves coherent: {coherent}), specification {want.tolist()}; instance {i}',
                      {'instance': repr(i)}, {'call': f'Base.{name}', 'predicate': 'value'})
        break


def replay(ctx, path):
  run(ctx)
