"""C19 — GAE equals its definition.  Gae.tla (dyadic arithmetic) is model-checked (reverse scan = defining sum) and
its final states (inputs + expected outputs) are replayed bit-exactly into brax's compute_gae."""
from __future__ import annotations

import json
import os
import re

import numpy as np

from harness import core, tlaval, tlc

INVS = ['AlgorithmicIsDefinitional', 'NothingAtTruncatedStep', 'NoAccumulationAcrossEpisodeEnd',
        'BootstrapExceptAcrossTermination']


def dy(v):
  return v[0] / float(2 ** v[1])


def final_states(dump_path):
  with open(dump_path) as f:
    txt = f.read()
  for block in re.split(r'^State \d+:\n', txt, flags=re.M)[1:]:
    if 'phase = "done"' in block:
      yield tlaval.parse_state(block.strip())


def run_tlc(ctx, label, tset, coefs, ndata, vals, seed, nmask=0):
  cfg = os.path.join(tlc.WORK, f'{label}.cfg')
  os.makedirs(tlc.WORK, exist_ok=True)
  tlc.write_cfg(cfg, constants={'TSet': '{' + ','.join(map(str, tset)) + '}', 'Coefs': f'<- {coefs}',
                                'NData': ndata, 'NMask': nmask, 'Vals': f'<- {vals}'}, invariants=INVS)
  dump = os.path.join(tlc.WORK, f'{label}')
  res = tlc.run('Gae', cfg, name=label, dump=dump, seed=seed, expect_ok=True, coverage=True)
  tlc.require_coverage(res, ['ScanStep', 'Finish'], label)
  ctx.add_tlc(res, label)
  return dump + '.dump'


def replay_states(ctx, states, r):
  import jax
  jax.config.update('jax_enable_x64', True)
  import jax.numpy as jnp
  from brax.training.agents.ppo import losses

  gae = jax.jit(lambda tr, te, rw, v, b, lam, gam: losses.compute_gae(tr, te, rw, v, b, lam, gam))

  def total(rw, v, b, tr, te, lam, gam):
    vs, adv = losses.compute_gae(tr, te, rw, v, b, lam, gam)
    return jnp.sum(vs * 1.5) + jnp.sum(adv * 0.75)

  grad = jax.jit(jax.grad(total, argnums=(0, 1, 2)))
  groups = {}
  for s in states:
    groups.setdefault((s['T'], s['lam'], s['gam']), []).append(s)
  nb = 0
  for (T, lam, gam), ss in sorted(groups.items()):
    r.shuffle(ss)
    i = 0
    while i < len(ss):
      B = 1 + (nb % 4)
      cols = ss[i:i + B]
      i += B
      nb += 1
      B = len(cols)
      arr = lambda k: np.array([[float(c[k][t]) for c in cols] for t in range(T)], np.float64)
      trunc, term, rw, v = arr('trunc'), arr('term'), arr('r'), arr('V')
      boot = np.array([float(c['boot']) for c in cols])
      # the masks may arrive as floats, booleans or integers: the value must not depend on that
      mdt = [np.float64, np.float32, np.bool_, np.int32, np.uint8][nb % 5]
      try:
        # (a bounded number of them - an un-compiled scan is slow -, spread over (T, lambda_, discount), lambda_ = 0 / 1 preferred)
        per_T = ctx.extra.setdefault('_python_calls_per_T', {})
        gk = f'{T}/{dy(lam)}/{dy(gam)}'
        if per_T.get(gk, 0) < (2 if ctx.quick else 8) and (dy(lam) in (0.0, 1.0) or nb % 50 == 0):
          per_T[gk] = per_T.get(gk, 0) + 1
          ctx.extra['python_number_calls'] = ctx.extra.get('python_number_calls', 0) + 1
          # un-compiled call with plain Python numbers for lambda_ and discount (0 and 1 as ints), as a user script passes them
          pl, pg = dy(lam), dy(gam)
          pl, pg = (int(pl) if pl in (0.0, 1.0) and nb % 2 else pl), (int(pg) if pg in (0.0, 1.0) and nb % 2 else pg)
          vs, adv = losses.compute_gae(jnp.asarray(trunc.astype(mdt)), jnp.asarray(term.astype(mdt)), jnp.asarray(rw), jnp.asarray(v),
                                       jnp.asarray(boot), pl, pg)
        else:
          vs, adv = gae(trunc.astype(mdt), term.astype(mdt), rw, v, boot, dy(lam), dy(gam))
        vs, adv = np.asarray(vs, np.float64), np.asarray(adv, np.float64)
      except Exception as e:  # the code under test failed: a verdict, not a machinery error
        ctx.violation(f'compute_gae raised for T={T} lambda={dy(lam)} discount={dy(gam)} mask dtype {np.dtype(mdt).name}: '
                      f'{type(e).__name__}: {str(e)[:200]}', {'T': T, 'B': B, 'lambda': dy(lam), 'discount': dy(gam)},
                      {'call': 'compute_gae', 'predicate': 'raised'})
        continue
      if vs.shape != (T, B) or adv.shape != (T, B):
        ctx.violation(f'compute_gae output shapes {vs.shape} {adv.shape}, expected {(T, B)}', {'T': T, 'B': B},
                      {'call': 'compute_gae', 'predicate': 'shape'})
        continue
      for j, c in enumerate(cols):
        want_vs = [dy(x) for x in c['vs']]
        want_adv = [dy(x) for x in c['adv']]
        nontrivial = any(c['term']) or any(c['trunc'])
        case = {'T': T, 'B': B, 'column': j, 'mask_dtype': np.dtype(mdt).name, 'lambda': dy(lam), 'discount': dy(gam), 'termination': list(c['term']),
                'truncation': list(c['trunc']), 'rewards': list(c['r']), 'values': list(c['V']), 'bootstrap': c['boot'],
                'expected_vs': want_vs, 'expected_adv': want_adv, 'got_vs': vs[:, j].tolist(), 'got_adv': adv[:, j].tolist()}
        ctx.case(key=(T, lam, gam, c['term'], c['trunc'], c['r'], c['V'], c['boot']), nontrivial=nontrivial,
                 sample=case if len(ctx.samples) < 4 and nontrivial and T >= 3 else None)
        ctx.traces += 1
        if vs[:, j].tolist() != want_vs or adv[:, j].tolist() != want_adv:
          ctx.violation(f'compute_gae differs from the defining sum: T={T} lambda={dy(lam)} discount={dy(gam)} '
                        f'term={list(c["term"])} trunc={list(c["trunc"])}: vs {vs[:, j].tolist()} vs {want_vs}; '
                        f'adv {adv[:, j].tolist()} vs {want_adv}', case, {'call': 'compute_gae', 'predicate': 'value'})
      if nb % 25 == 0:
        try:
          g = grad(rw, v, boot, trunc, term, dy(lam), dy(gam))
        except Exception as e:  # the code under test failed: a verdict, not a machinery error
          ctx.violation(f'differentiating compute_gae raised for T={T} lambda={dy(lam)} discount={dy(gam)}: {type(e).__name__}: {str(e)[:200]}',
                        {'T': T, 'B': B, 'lambda': dy(lam), 'discount': dy(gam)}, {'call': 'compute_gae', 'predicate': 'raised'})
          continue
        if any(np.any(np.asarray(x) != 0) for x in g):
          ctx.violation('compute_gae outputs carry gradient w.r.t. rewards/values/bootstrap',
                        {'T': T, 'B': B, 'grads': [np.asarray(x).tolist() for x in g]},
                        {'call': 'compute_gae', 'predicate': 'gradient'})
        ctx.extra['gradient_checks'] = ctx.extra.get('gradient_checks', 0) + 1


def run(ctx):
  r = core.rng(ctx)
  ctx.rule = ('TLC enumerates T x all 3^T (termination, truncation) masks x lambda, discount on the dyadic lattice x '
              'random lattice data; invariant: reverse scan = defining sum. Every final state is replayed into '
              'compute_gae (float64, batched into [T, B] with B in 1..4, columns all different) and compared '
              'bit-exactly. distinct = input tuple; non-trivial = at least one termination or truncation.')
  ctx.assumptions = ['dyadic inputs make float64 evaluation exact, so equality is bit-exact',
                     'lambda_/discount passed as traced scalars through jax.jit for two batches out of three, as plain Python numbers to the un-compiled function for the third']
  runs = [('c19-a', [1, 2, 3, 4], 'CoefsHalf', 2, 'ValsSmall')] if ctx.quick else \
      [('c19-a', [1, 2, 3, 4, 5], 'CoefsHalf', 3, 'ValsSmall'), ('c19-b', [1, 2, 3], 'CoefsQuarter', 3, 'ValsWide'),
       ('c19-c', [6, 7], 'CoefsHalf', 1, 'ValsSmall')]
  for label, tset, coefs, nd, vals in runs:
    dump = run_tlc(ctx, label, tset, coefs, nd, vals, ctx.seed + 1)
    replay_states(ctx, list(final_states(dump)), r)
  # long trajectories (T up to 12) by simulation: one lattice point per behaviour
  dump = run_tlc(ctx, 'c19-long', [8, 10, 11, 12], 'CoefsHalf', 1, 'ValsSmall', ctx.seed + 2,
                 nmask=20 if ctx.quick else 400)
  replay_states(ctx, list(final_states(dump)), r)
  ctx.exhaustive = False


def replay(ctx, path):
  with open(path) as f:
    body = json.load(f)
  print(json.dumps(body, indent=1)[:3000])
  ctx.seed, ctx.tier = body.get('seed', ctx.seed), body.get('tier', ctx.tier)
  ctx.quick = ctx.tier == 'quick'
  run(ctx)
