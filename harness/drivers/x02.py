"""X02 (coverage beyond the listed properties, DESIGN §9 S3): the Gym, vector-Gym and dm_env adapters are the
host-side state machines of Adapters.tla.  TLC model-checks the key discipline and the protocol; every edge of the
state graph is then replayed on LIVE adapter objects (covering walks, randomised by the seed, so that hidden state
accumulates along a walk) around a scripted environment whose observations reveal which PRNG key started the episode."""
from __future__ import annotations

import collections
import os
import types

import numpy as np

from harness import core, tlaval, tlc

INVS = ['Reproducible', 'EpochIsPrefix', 'ErrorIffNoState', 'StepNeverErrsWithState', 'DmProtocol', 'ObsIsHeldState']
PROPS = ['FreshEpisodes', 'SeedKeepsEpisode', 'StepKeepsKey']
NS = 65521


def done_at(idt, t):
  return t > 0 and (idt[0] + 2 * idt[1] + idt[2] + t) % 3 == 0


def key_table(kind, seeds, maxn, B):
  """m (what the scripted env derives from its reset key) for every episode id the specification can reach."""
  import jax
  tab = {}
  for s in seeds:
    k = jax.random.PRNGKey(s)
    for n in range(maxn + 2):
      k1, k2 = jax.random.split(k)
      if kind == 'vector':
        ks = jax.random.split(k2, B)
        for i in range(B):
          tab[(s, n, i + 1)] = int(np.asarray(ks[i])[-1]) % NS
      else:
        tab[(s, n, 0)] = int(np.asarray(k2)[-1]) % NS
      k = k1
  if len(set(tab.values())) != len(tab):
    raise tlc.MachineryError('episode ids collide in the scripted environment; choose another modulus')
  return tab


def make_env(tab, maxt):
  import jax
  import jax.numpy as jp
  from brax.envs.base import Env, State
  T = maxt + 3
  table = np.zeros((NS, T), np.int8)
  for idt, m in tab.items():
    for t in range(T):
      table[m, t] = 1 if done_at(idt, t) else 0
  table = jp.asarray(table)

  class Scripted(Env):

    def __init__(self):
      self.sys = types.SimpleNamespace(actuator=types.SimpleNamespace(ctrl_range=np.array([[-2.0, 3.0]])))

    @property
    def dt(self):
      return 0.05

    def reset(self, rng):
      m = (rng[-1] % NS).astype(jp.int32)
      ps = {'t': jp.int32(0), 'm': m, 'acc': jp.float32(0)}
      obs = jp.array([0.0, 0.0, 0.0]).at[0].set(m.astype(jp.float32))
      z = jp.float32(0)
      return State(ps, obs, z, z, {'m_only': z, 'shared': jp.float32(1)}, {'i_only': z, 'shared': jp.float32(2)})

    def step(self, state, action):
      ps = state.pipeline_state
      t1 = ps['t'] + 1
      acc = ps['acc'] + action[0]
      done = table[ps['m'], jp.clip(t1, 0, T - 1)].astype(jp.float32)
      obs = jp.array([0.0, 0.0, 0.0]).at[0].set(ps['m'].astype(jp.float32)).at[1].set(t1.astype(jp.float32)).at[2].set(acc)
      return state.replace(pipeline_state={'t': t1, 'm': ps['m'], 'acc': acc}, obs=obs,
                           reward=(2.0 ** (t1 % 8)).astype(jp.float32), done=done,
                           metrics={'m_only': t1.astype(jp.float32), 'shared': jp.float32(1)},
                           info={'i_only': acc, 'shared': jp.float32(2)})

    @property
    def observation_size(self):
      return 3

    @property
    def action_size(self):
      return 1

    @property
    def backend(self):
      return 'scripted'

  return Scripted


def make_adapter(kind, Scripted, B, init_seed):
  if kind == 'gym':
    from brax.envs.wrappers import gym as gw
    return gw.GymWrapper(Scripted(), seed=init_seed)
  if kind == 'vector':
    from brax.envs.wrappers import gym as gw
    from brax.envs.wrappers import training
    return gw.VectorGymWrapper(training.VmapWrapper(Scripted(), batch_size=B), seed=init_seed)
  from brax.envs.wrappers import dm_env as dw
  return dw.DmEnvWrapper(Scripted(), seed=init_seed)


def observe(kind, members, rev, op, ret):
  """Projects what a call returned onto the specification's `out` record."""
  import dm_env
  out = {'op': op, 'err': False, 'obs': (), 'reward': (), 'rnone': False, 'done': (), 'info': (), 'stype': (), 'discount': 0}

  def per_member(x):
    x = np.asarray(x)
    return [x[i - 1] for i in members] if kind == 'vector' else [x]

  def obs_of(o):
    res = []
    for v in per_member(o):
      m = int(round(float(v[0])))
      res.append((rev.get(m, ('unknown-key', m)), int(round(float(v[1]))), int(round(float(v[2])))))
    return tuple(res)

  if kind == 'dm':
    out['stype'] = {dm_env.StepType.FIRST: 'FIRST', dm_env.StepType.MID: 'MID', dm_env.StepType.LAST: 'LAST'}[ret.step_type]
    out['rnone'] = ret.reward is None
    out['discount'] = float(ret.discount)
    out['discount'] = int(out['discount']) if out['discount'] == int(out['discount']) else out['discount']
    out['obs'] = obs_of(ret.observation)
    if op == 'step':
      out['reward'] = tuple(int(round(float(v))) for v in per_member(ret.reward))
      out['done'] = tuple(1 if ret.step_type == dm_env.StepType.LAST else 0 for _ in members)
  elif op == 'reset':
    out['obs'] = obs_of(ret)
  else:
    obs, reward, done, info = ret
    out['obs'] = obs_of(obs)
    out['reward'] = tuple(int(round(float(v))) for v in per_member(reward))
    out['done'] = tuple(int(round(float(v))) for v in per_member(done))
    keys = sorted(info)
    out['info'] = tuple(tuple((k, int(round(float(per_member(info[k])[j])))) for k in keys) for j in range(len(members)))
  return out


def expected(kind, members, node):
  o = node['out']

  def seq(v):
    if isinstance(v, dict):
      return [v[i] for i in members]
    return list(v)

  e = {'op': o['op'], 'err': bool(o['err']), 'rnone': bool(o['rnone']), 'discount': o['discount'],
       'stype': o['stype'] if isinstance(o['stype'], str) else (),
       'obs': tuple((tuple(x[0]), x[1], x[2]) for x in seq(o['obs'])),
       'reward': tuple(seq(o['reward'])), 'done': tuple(seq(o['done'])),
       'info': tuple(tuple(sorted(d.items())) for d in seq(o['info']))}
  return e


def run_kind(ctx, kind, r):
  seeds, init_seed, acts, B = [0, 1], 0, [0, 1], 2
  maxn, maxt = (2, 3) if ctx.quick else (4, 5)
  cfg = os.path.join(tlc.WORK, f'x02-{kind}.cfg')
  tlc.write_cfg(cfg, constants={'Kind': f'"{kind}"', 'Seeds': '{0, 1}', 'InitSeed': init_seed, 'Acts': '{0, 1}', 'B': B,
                                'MaxN': maxn, 'MaxT': maxt},
                invariants=INVS, properties=PROPS, constraints=['Bound'])
  dot = os.path.join(tlc.WORK, f'x02-{kind}.dot')
  res = tlc.run('Adapters', cfg, name=f'x02-{kind}', dump_dot=dot, coverage=True, expect_ok=True, workers=2)
  ctx.add_tlc(res, f'Adapters.tla Kind={kind}')
  tlc.require_coverage(res, ['Seed', 'Reset', 'StepLive', 'StepAfterDone', 'StepNoState', 'RenderNoState'], f'x02 {kind}')
  nodes, edges, inits = tlaval.parse_dot(dot)
  succ = collections.defaultdict(list)
  for s, d, lab in edges:
    if d in nodes:
      succ[s].append((d, lab))
  members = [1, 2] if kind == 'vector' else [0]
  tab = key_table(kind, sorted(set(seeds + [init_seed])), maxn + maxt + 2, B)
  rev = {m: idt for idt, m in tab.items()}
  Scripted = make_env(tab, maxt + 2)
  todo = {(s, d, lab) for s in succ for d, lab in succ[s]}
  total = len(todo)
  import jax.numpy as jp
  walks = 0
  while todo:
    walks += 1
    if walks > 400:
      raise tlc.MachineryError(f'x02 {kind}: covering walks do not terminate ({len(todo)} edges left)')
    w = make_adapter(kind, Scripted, B, init_seed)
    cur, hist = inits[0], []
    while True:
      cand = [(d, lab) for d, lab in succ[cur] if (cur, d, lab) in todo]
      if cand:
        path = [(cur,) + r.choice(sorted(cand, key=lambda x: x[1] + str(x[0])))]
      else:  # shortest path to a state that still has an unreplayed edge
        prev, queue, goal = {cur: None}, collections.deque([cur]), None
        while queue and goal is None:
          u = queue.popleft()
          for d, lab in succ[u]:
            if d not in prev:
              prev[d] = (u, lab)
              if any((d, d2, l2) in todo for d2, l2 in succ[d]):
                goal = d
                break
              queue.append(d)
        if goal is None:
          break
        path, v = [], goal
        while prev[v] is not None:
          u, lab = prev[v]
          path.append((u, v, lab))
          v = u
        path.reverse()
      bad = False
      for (u, d, lab) in path:
        act, args = tlaval.parse_label(lab)
        hist.append(lab)
        op = {'Seed': 'seed', 'Reset': 'reset', 'RenderNoState': 'render'}.get(act, 'step')
        try:
          if act == 'Seed':
            w.seed(int(args[0]))
            got = {'op': 'seed', 'err': False, 'obs': (), 'reward': (), 'rnone': False, 'done': (), 'info': (), 'stype': (), 'discount': 0}
          elif act == 'Reset':
            got = observe(kind, members, rev, 'reset', w.reset())
          elif act == 'RenderNoState':
            w.render(mode='rgb_array') if kind != 'dm' else w.render()
            got = {'op': 'render', 'err': False}
          else:
            a = int(args[0])
            action = jp.asarray([[float(a + i)] for i in members]) if kind == 'vector' else jp.asarray([float(a)])
            got = observe(kind, members, rev, 'step', w.step(action))
        except Exception as e:  # pylint: disable=broad-except
          # before the first reset: render must refuse with RuntimeError, step fails on the missing state
          refused = isinstance(e, RuntimeError) if act == 'RenderNoState' else True
          got = {'op': op, 'err': True, 'obs': (), 'reward': (), 'rnone': False, 'done': (), 'info': (), 'stype': (), 'discount': 0,
                 'exc': f'{type(e).__name__}: {str(e)[:120]}'} if refused else {'op': op, 'err': False, 'exc': repr(e)[:200]}
        want = expected(kind, members, nodes[d])
        todo.discard((u, d, lab))
        diff = [k for k in want if got.get(k) != want[k]]
        ctx.traces += 1
        ctx.case(key=(kind, u, d, lab), nontrivial=act != 'Seed' or nodes[u]['st'] != (),
                 sample={'kind': kind, 'history': list(hist)} if len(hist) == 6 and len(ctx.samples) < 3 else None)
        if diff:
          ctx.violation(f'{kind} adapter after {hist[-8:]}: fields {diff} returned {[got.get(k) for k in diff]}, specification '
                        f'{[want[k] for k in diff]}', {'kind': kind, 'history': list(hist)},
                        {'call': f'{kind}.{op}', 'predicate': diff[0]})
          bad = True
          break
        cur = d
      if bad:
        break
  ctx.extra[f'{kind}_edges_replayed'] = total
  ctx.extra[f'{kind}_live_objects'] = walks
  # static interface: spaces/specs agree with the environment
  w = make_adapter(kind, Scripted, B, init_seed)
  if kind == 'dm':
    ok = (w.action_spec().shape == (1,) and float(w.action_spec().minimum[0]) == -2.0 and float(w.action_spec().maximum[0]) == 3.0
          and w.observation_spec().shape == (3,) and w.reward_spec().shape == () and float(w.discount_spec().maximum) == 1.0)
  else:
    shape = (B,) if kind == 'vector' else ()
    ok = (w.action_space.shape == shape + (1,) and float(np.min(w.action_space.low)) == -2.0 and float(np.max(w.action_space.high)) == 3.0
          and w.observation_space.shape == shape + (3,))
  if not ok:
    ctx.violation(f'{kind} adapter: spaces do not describe the environment', {'kind': kind}, {'call': f'{kind}.init', 'predicate': 'spaces'})


def run(ctx):
  ctx.rule = ('every edge of the Adapters.tla state graph (seed / reset / step / step-after-done / step and render before '
              'reset) replayed on live GymWrapper, VectorGymWrapper(VmapWrapper) and DmEnvWrapper objects; each returned '
              'value (observation incl. the identity of the PRNG key that started the episode, reward, done, merged info, '
              'step type, discount, refusal) must equal the successor state\'s `out`. distinct = graph edge; non-trivial = '
              'any edge but a reseed before the first reset.')
  ctx.assumptions = ['rendering after reset is not exercised (needs a real System)']
  os.makedirs(tlc.WORK, exist_ok=True)
  r = core.rng(ctx, 92)
  for kind in ['gym', 'vector', 'dm']:
    run_kind(ctx, kind, r)


def replay(ctx, path):
  run(ctx)
