"""X06 (coverage beyond the listed properties): reward and termination semantics of the bundled environments as laws of
EnvRewards.tla over recorded un-wrapped rollouts (float64).  The harness sends the actions and quantises what comes back;
the control cost is recomputed from the action that was sent, the forward reward is checked against the displacement of
the environment's own x_position metric between consecutive steps."""
from __future__ import annotations

import json
import os

import numpy as np

from harness import par, tlc

Q = 1e-5
# components (metric, coefficient); ctrl = (metric, weight attr or constant, rescale action to the actuator range?);
# fwd = (metric, weight attr or constant); z-rule: attr names
TABLE = {
    'ant': dict(comps=[('reward_forward', 1), ('reward_survive', 1), ('reward_ctrl', 1), ('reward_contact', 1)],
                ctrl=('reward_ctrl', '_ctrl_cost_weight', False), fwd=('reward_forward', 1.0), z=True, zonly=True, survive='reward_survive'),
    'halfcheetah': dict(comps=[('reward_run', 1), ('reward_ctrl', 1)], ctrl=('reward_ctrl', '_ctrl_cost_weight', False),
                        fwd=('reward_run', '_forward_reward_weight')),
    'hopper': dict(comps=[('reward_forward', 1), ('reward_ctrl', 1), ('reward_healthy', 1)], ctrl=('reward_ctrl', '_ctrl_cost_weight', False),
                   fwd=('reward_forward', '_forward_reward_weight'), z=True, zonly=False, survive='reward_healthy'),
    'walker2d': dict(comps=[('reward_forward', 1), ('reward_ctrl', 1), ('reward_healthy', 1)], ctrl=('reward_ctrl', '_ctrl_cost_weight', False),
                     fwd=('reward_forward', '_forward_reward_weight'), z=True, zonly=False, survive='reward_healthy'),
    'humanoid': dict(comps=[('reward_linvel', 1), ('reward_quadctrl', 1), ('reward_alive', 1)], ctrl=('reward_quadctrl', '_ctrl_cost_weight', True),
                     fwd=('reward_linvel', '_forward_reward_weight'), z=True, zonly=True, survive='reward_alive'),
    'humanoidstandup': dict(comps=[('reward_linup', 1), ('reward_quadctrl', 1)], const=1.0, ctrl=('reward_quadctrl', 0.01, True)),
    'swimmer': dict(comps=[('reward_fwd', 1), ('reward_ctrl', 1)], ctrl=('reward_ctrl', '_ctrl_cost_weight', False),
                    fwd=('reward_fwd', '_forward_reward_weight')),
    'reacher': dict(comps=[('reward_dist', 1), ('reward_ctrl', 1)], ctrl=('reward_ctrl', 1.0, False)),
    'pusher': dict(comps=[('reward_dist', 1), ('reward_ctrl', 0.1), ('reward_near', 0.5)], ctrl=('reward_ctrl', 1.0, True)),
    # its own rule: the pole angle (second observation) leaves +-0.2 rad
    'inverted_pendulum': dict(comps=[], const=1.0, angle_rule=0.2),
}


def q(x):
  x = float(x)
  if not np.isfinite(x):
    return 2**30
  return int(max(-2**30, min(2**30, round(x / Q))))


def rollout(case):
  import jax
  import jax.numpy as jp
  from brax import envs
  name, backend, T, seed = case['env'], case['backend'], case['steps'], case['seed']
  tb = TABLE[name]
  try:
    env = envs.get_environment(name, backend=backend)
    step = jax.jit(env.step)
    state = jax.jit(env.reset)(jax.random.PRNGKey(seed))
    evs = [{'ev': 'reset', 'done': q(state.done), 'reward': q(state.reward)}]
    rs = np.random.RandomState(seed + 17)
    w = lambda a: float(getattr(env, a)) if isinstance(a, str) else float(a)
    terminates = int(bool(getattr(env, '_terminate_when_unhealthy', False)))
    lo, hi = (np.asarray(env.sys.actuator.ctrl_range)[:, 0], np.asarray(env.sys.actuator.ctrl_range)[:, 1])
    hold = None
    for t in range(T):
      if t % 20 < 12:
        a = rs.uniform(-1, 1, size=env.action_size)
      elif hold is None or t % 20 == 12:
        a = hold = rs.choice([-1.0, 1.0], size=env.action_size)
      else:
        a = hold
      state = step(state, jp.asarray(a))
      m = {k: float(v) for k, v in state.metrics.items()}
      e = {'ev': 'step', 'reward': q(state.reward), 'done': q(state.done) // int(round(1 / Q)) if float(state.done) in (0.0, 1.0) else 7,
           'const': q(tb.get('const', 0.0)), 'comps': [q(c * m[k]) for k, c in tb['comps']],
           'has_ctrl': 0, 'ctrl': 0, 'ctrl_expected': 0, 'has_fwd': 0, 'fwd': 0, 'psi': 0, 'zclass': 'na', 'zonly': 0,
           'terminates': terminates, 'has_survive': 0, 'survive': 0, 'healthy_reward': 0}
      if 'ctrl' in tb:
        k, wt, rescale = tb['ctrl']
        aa = (a + 1) * (hi - lo) * 0.5 + lo if rescale else a
        e.update(has_ctrl=1, ctrl=q(m[k]), ctrl_expected=q(-w(wt) * float(np.sum(np.square(aa)))))
      if 'fwd' in tb:
        k, wt = tb['fwd']
        e.update(has_fwd=1, fwd=q(m[k]), psi=q(w(wt) * m['x_position'] / float(env.dt)))
      if tb.get('z'):
        z = float(state.pipeline_state.x.pos[0, 2])
        zlo, zhi = [float(v) for v in env._healthy_z_range]
        e['zclass'] = 'edge' if min(abs(z - zlo), abs(z - zhi)) < 1e-6 else ('in' if zlo < z < zhi else 'out')
        e['zonly'] = int(bool(tb.get('zonly')))
      if tb.get('angle_rule'):
        ang = abs(float(state.obs[1]))
        e.update(terminates=1, zonly=1, zclass='edge' if abs(ang - tb['angle_rule']) < 1e-6 else ('out' if ang > tb['angle_rule'] else 'in'))
      if tb.get('survive'):
        e.update(has_survive=1, survive=q(m[tb['survive']]), healthy_reward=q(env._healthy_reward))
      evs.append(e)
    return {'events': evs}
  except Exception as ex:  # pylint: disable=broad-except
    import traceback
    return {'events': [], 'err': f'{type(ex).__name__}: {str(ex)[:200]}', 'tb': traceback.format_exc()[-800:]}


def run(ctx):
  qk = ctx.quick
  ctx.rule = ('un-wrapped float64 rollouts (uniform and held bang-bang actions) of the ten physics environments with documented '
              'reward components; each history must be accepted by EnvRewards.tla. non-trivial = a rollout that ran.')
  ctx.assumptions = ['quantum 1e-5, tolerance 4 quanta', 'hopper / walker2d: only the height part of the health rule is modelled (one direction)']
  backs = ['positional'] if qk else ['positional', 'spring', 'generalized']
  cases = [{'env': e, 'backend': b if e != 'swimmer' else 'generalized', 'steps': 60 if qk else 300, 'seed': ctx.seed}
           for e in TABLE for b in backs if not (e == 'swimmer' and b != backs[0])]
  traces, errs = [], []
  for case, r in par.run('harness.drivers.x06', 'rollout', cases, x64=True, procs=10):
    traces.append(r['events'])
    errs.append(r.get('err'))
  os.makedirs(tlc.WORK, exist_ok=True)
  tf = os.path.join(tlc.WORK, 'x06.json')
  with open(tf, 'w') as f:
    json.dump([t if t else [{'ev': 'failed'}] for t in traces], f)
  cfg = os.path.join(tlc.WORK, 'x06.cfg')
  tlc.write_cfg(cfg, init='TraceInit', next_='TraceNext', constraints=['Progress'], postcondition='AllAccepted')
  res = tlc.run('EnvRewards', cfg, name='x06', workers=1, env={'TRACE_FILE': tf}, timeout=3000)
  ctx.add_tlc(res, 'EnvRewards.tla')
  rejected = tlc.parse_rejects(res, 'x06')
  cov = {}
  for case, evs in zip(cases, traces):
    c = cov.setdefault(case['env'], {'steps': 0, 'unhealthy_steps': 0, 'done_steps': 0})
    c['steps'] += sum(e['ev'] == 'step' for e in evs)
    c['unhealthy_steps'] += sum(e.get('zclass') == 'out' for e in evs)
    c['done_steps'] += sum(e.get('done') == 1 for e in evs if e['ev'] == 'step')
  ctx.extra['law_coverage'] = cov      # a termination law with 0 unhealthy steps was not exercised in this run
  for i, (case, evs) in enumerate(zip(cases, traces)):
    ctx.traces += 1
    ctx.case(key=(case['env'], case['backend']), nontrivial=len(evs) > 10,
             sample={'env': case['env'], 'backend': case['backend'], 'events': evs[:2]} if i == 0 else None)
    if (i + 1) in rejected:
      at = rejected[i + 1]
      bad = evs[at - 1] if 0 < at <= len(evs) else None
      ctx.violation(f'{case["env"]}/{case["backend"]}: reward/termination law rejected at event {at}: {bad}; previous {evs[at - 2] if at >= 2 and evs else None}; {errs[i]}',
                    {'env': case['env'], 'backend': case['backend'], 'rejected_at': at, 'event': bad, 'seed': case['seed']},
                    {'call': f'{case["env"]}', 'predicate': 'reward_laws'})


def replay(ctx, path):
  run(ctx)
