"""C14 — unsupported models are rejected, accepted models load consistently.  MjcfLoad.tla enumerates ModelSpace models
x {clean, one unsupported feature at one eligible element} with the expected decision and structure; each is rendered,
loaded with mjcf.loads and initialised with each of the three native pipelines."""
from __future__ import annotations

import json
import os

import numpy as np

from harness import core, par, render, tlaval, tlc

PIPES = ['generalized', 'spring', 'positional']


def build_xml(model, acts, inj, init_qpos=None):
  kind, site = inj['kind'], inj['site']
  kw = {}
  actuators = []
  for k, a in enumerate(acts, 1):
    d = {'kind': a['kind'], 'link': a['site'][0], 'j': a['site'][1], 'gear': 1.0 + 0.5 * k}
    if a['kind'] == 'position':
      d['kp'] = 2.0
    if a['kind'] == 'velocity':
      d['kv'] = 0.5
    actuators.append(d)
  extra_act = ''
  if kind == 'integrator':
    kw['option_extra'] = 'integrator="RK4"'
  elif kind == 'cone':
    kw['option_extra'] = 'cone="elliptic"'
  elif kind == 'wind':
    kw['option_extra'] = 'wind="1 0 0"'
  elif kind == 'impratio':
    kw['option_extra'] = 'impratio="2"'
  elif kind == 'fluidshape':
    kw['geom_extra'] = {site: 'fluidshape="ellipsoid"'}
  elif kind == 'solmix':
    kw['geom_extra'] = {site: 'solmix="2"'}
  elif kind == 'priority':
    kw['geom_extra'] = {site: 'priority="1"'}
  elif kind == 'cylinder':
    kw['geom_override'] = {site: [f'<geom name="G{site}" type="cylinder" size="0.05 0.2" contype="1" conaffinity="1"/>']}
    kw['ground'] = True
  elif kind == 'cylinder_affinity_only':
    kw['geom_override'] = {site: [f'<geom name="G{site}" type="cylinder" size="0.05 0.2" contype="0" conaffinity="1"/>']}
    kw['ground'] = True
  elif kind == 'ref':
    # (a reference offset stays a reference offset when the spring's rest position happens to coincide with it)
    kw['joint_extra'] = {tuple(site): ' ref="0.25"' + (' springref="0.25"' if inj.get('with_springref') else '')}
  elif kind == 'none' and inj.get('springref_at'):
    # a spring rest position alone is an ordinary supported joint attribute
    kw['joint_extra'] = {tuple(inj['springref_at']): ' springref="0.25"'}
  elif kind in ('ball', 'ball_range', 'ball_stacked'):
    l = model['links'][site - 1]
    anchor = render.vec(l['anchor'])
    ball = f'<joint name="J{site}_b" type="ball" pos="{anchor}"' + (' limited="true" range="0 1"' if kind == 'ball_range' else '') + '/>'
    if kind == 'ball_stacked':
      js = [render.joint_xml(site, j, jt, l['anchor']) for j, jt in enumerate(l['stack'], 1)]
      kw['joints_override'] = {site: js + [ball]}
    else:
      kw['joints_override'] = {site: [ball]}
      actuators = [a for a in actuators if a['link'] != site]
  elif kind == 'free_stiffness':
    kw['joints_override'] = {site: [f'<joint name="J{site}_f" type="free" stiffness="1"/>']}
  elif kind == 'anchors':
    l = model['links'][site - 1]
    js = [render.joint_xml(site, j, jt, l['anchor']) for j, jt in enumerate(l['stack'], 1)]
    js[1] = js[1].replace(f'pos="{render.vec(l["anchor"])}"', 'pos="0.3 0.0 0.0"' if render.fl(l['anchor'][0]) != 0.3 else 'pos="0 0.1 0"')
    kw['joints_override'] = {site: js}
  elif kind == 'transmission':
    extra_act = f'    <adhesion name="AX" body="L{site}" ctrlrange="0 1"/>\n'
  elif kind == 'jointinparent':
    extra_act = f'    <motor name="AX" jointinparent="J{site[0]}_{site[1]}"/>\n'
  elif kind == 'gaintype':
    a = actuators[site - 1]
    a['kind'] = 'general'
    a['extra'] = ' gaintype="affine" gainprm="1 0.5 0"'
    a.pop('kp', None)
    a.pop('kv', None)
  elif kind == 'biastype':
    a = actuators[site - 1]
    a['kind'] = 'general'
    a['extra'] = ' biastype="muscle"'
    a.pop('kp', None)
    a.pop('kv', None)
  if init_qpos:
    kw['custom'] = {'init_qpos': ' '.join(repr(float(v)) for v in init_qpos)}
  xml = render.render(model, actuators=actuators, **kw)
  if extra_act:
    if '<actuator>' in xml:
      xml = xml.replace('  </actuator>\n', extra_act + '  </actuator>\n')
    else:
      xml = xml.replace('</mujoco>', '  <actuator>\n' + extra_act + '  </actuator>\n</mujoco>')
  return xml


def eval_case(case):
  import jax
  import mujoco
  from brax.io import mjcf
  import importlib
  xml = build_xml(case['model'], case['acts'], case['inj'], case.get('init_qpos'))
  out = {'xml': xml, 'mj_ok': True, 'pipes': {}}
  try:
    mjm = mujoco.MjModel.from_xml_string(xml)
    mjd = mujoco.MjData(mjm)
    if case.get('init_qpos'):      # brax's own option (the reference compiler ignores custom numerics): the nominal start pose
      mjd.qpos[:] = case['init_qpos']
    mujoco.mj_forward(mjm, mjd)
    out['mj_xpos'] = mjd.xpos[1:].tolist()
  except Exception as e:  # the reference compiler itself refuses the document: never reaches brax
    out['mj_ok'] = False
    out['mj_err'] = str(e)[:200]
    return out
  try:
    sys = mjcf.loads(xml)
  except Exception as e:  # pylint: disable=broad-except
    out['load_err'] = f'{type(e).__name__}: {str(e)[:200]}'
    return out
  out['structure'] = {
      'nq': int(sys.q_size()), 'nv': int(sys.qd_size()), 'types': list(sys.link_types),
      'parents': [int(x) for x in sys.link_parents],
      'qid': [int(x) for x in np.asarray(sys.actuator.q_id)], 'qdid': [int(x) for x in np.asarray(sys.actuator.qd_id)],
      'init_q': np.asarray(sys.init_q).tolist(),
  }
  for pn in PIPES:
    pipe = importlib.import_module(f'brax.{pn}.pipeline')
    try:
      st = pipe.init(sys, sys.init_q, jax.numpy.zeros(sys.qd_size()))
      out['pipes'][pn] = 'accepted'
      out.setdefault('init_x', {})[pn] = np.asarray(st.x.pos).tolist()
    except Exception as e:  # pylint: disable=broad-except
      out['pipes'][pn] = f'{type(e).__name__}: {str(e)[:160]}'
  return out


def expected_init_q(model):
  q = []
  for l in model['links']:
    if l['root'] == 'free':
      q += render.fvec(l['pos']) + render.fvec(l['quat'])
    else:
      q += [0.0] * len(l['stack'])
  return q


SET = {
    'integrator': lambda mj, on: setattr(mj.opt, 'integrator', 1 if on else 0),
    'cone': lambda mj, on: setattr(mj.opt, 'cone', 1 if on else 0),
    'impratio': lambda mj, on: setattr(mj.opt, 'impratio', 2.0 if on else 1.0),
    'wind': lambda mj, on: mj.opt.wind.__setitem__(slice(None), [1.0, 0, 0] if on else [0.0, 0, 0]),
}


def session(ctx):
  """LoadSession.tla: every op sequence up to the depth bound replayed on ONE live system object (path walk, because
  an implementation may carry hidden state between initialisations)."""
  import importlib
  import jax.numpy as jp
  from brax.io import mjcf
  feats = ['integrator', 'wind'] if ctx.quick else ['integrator', 'cone', 'wind', 'impratio']
  depth = 3 if ctx.quick else 4
  cfg = os.path.join(tlc.WORK, 'c14-session.cfg')
  tlc.write_cfg(cfg, constants={'Features': '{' + ','.join(f'"{f}"' for f in feats) + '}',
                                'Pipes': '{"generalized","spring","positional"}', 'MaxOps': depth},
                invariants=['VerdictIsMemoryless'], constraints=['DepthBound'])
  dot = os.path.join(tlc.WORK, 'c14-session.dot')
  res = tlc.run('LoadSession', cfg, name='c14-session', dump_dot=dot, expect_ok=True, workers=2)
  ctx.add_tlc(res, 'LoadSession.tla')
  nodes, edges, inits = tlaval.parse_dot(dot)
  succ = {}
  for s, d, lab in edges:
    if d in nodes:
      succ.setdefault(s, []).append((d, lab))
  xml = ('<mujoco><worldbody><body name="a" pos="0 0 1"><joint name="j" type="hinge" axis="0 1 0"/>'
         '<geom name="g" type="sphere" size="0.1"/></body></worldbody></mujoco>')
  pipes = {p: importlib.import_module(f'brax.{p}.pipeline') for p in PIPES}
  npaths = [0]

  def replay_path(path):
    sys = mjcf.loads(xml)           # a fresh object per path; hidden state (if any) accumulates along the path
    hist = []
    for (d, lab) in path:
      act, args = tlaval.parse_label(lab)
      hist.append(lab)
      if act in ('Set', 'Clear'):
        SET[args[0]](sys.mj_model, act == 'Set')
      else:
        try:
          pipes[args[0]].init(sys, sys.init_q, jp.zeros(sys.qd_size()))
          got = 'accepted'
        except Exception:  # pylint: disable=broad-except
          got = 'rejected'
        want = nodes[d]['out']
        if got != want:
          ctx.violation(f'after {hist}: init was {got}, the model {"uses " + str(sorted(nodes[d]["on"])) if nodes[d]["on"] else "is clean"} '
                        f'so it must be {want}', {'history': hist, 'xml': xml},
                        {'call': 'pipeline.init', 'predicate': 'session_' + want})
          return
    npaths[0] += 1
    ctx.traces += 1
    ctx.case(key=('session', tuple(hist)), nontrivial=any('Set' in h for h in hist) and any('Init' in h for h in hist),
             sample={'session': hist} if npaths[0] == 40 else None)

  def dfs(node, path):
    nxt = succ.get(node, [])
    if not nxt or len(path) >= depth:
      if path and path[-1][1].startswith('InitPipe'):
        replay_path(path)
      return
    for d, lab in nxt:
      dfs(d, path + [(d, lab)])

  dfs(inits[0], [])
  ctx.extra['session_paths_replayed'] = npaths[0]


def run(ctx):
  q = ctx.quick
  ctx.rule = ('TLC enumerates ModelSpace models (1-3 links quick, 1-4 thorough) with 0-3 actuators x {clean} + every '
              'unsupported feature kind x every eligible element; each case is rendered, loaded and initialised with the '
              'three native pipelines: reject <=> a feature was injected (any exception at load or init counts as '
              'reject); for clean models nq, nv, link types, parents, actuator q/qd ids and init_q must equal the '
              'specification. non-trivial = an injected feature, or a clean model with >= 2 links.')
  ctx.assumptions = ['documents the MuJoCo compiler itself refuses are excluded and counted (they never reach brax)',
                     'error messages are not compared', 'mixed solmix/priority only injected when the model has >= 2 geoms']
  os.makedirs(tlc.WORK, exist_ok=True)
  cases = []
  for label, maxl, nm, only_clean in [('c14', 3 if q else 4, 6 if q else 60, 'FALSE'),
                                      ('c14-clean', 4, 40 if q else 600, 'TRUE')]:
    cfg = os.path.join(tlc.WORK, f'{label}.cfg')
    tlc.write_cfg(cfg, constants={'Class': '"any"', 'MaxLinks': maxl, 'NModels': nm, 'OnlyClean': only_clean, 'SeedBase': core.seed_base(ctx, 14)},
                  invariants=['ModelWellFormed', 'StructureConsistent', 'DecisionTable'])
    dump = os.path.join(tlc.WORK, label)
    res = tlc.run('MjcfLoad', cfg, name=label, dump=dump, seed=ctx.seed + 14, expect_ok=True)
    ctx.add_tlc(res, f'MjcfLoad.tla {label}')
    cases += [{'model': s['model'], 'acts': s['acts'], 'inj': s['inj'], 'expect': s['expect']}
              for s in tlaval.parse_dump(dump + '.dump')]
  # variants decided by the same table (reject iff a feature is injected), placed where the generator rarely puts them:
  #  - a stiff free joint on a free root that comes AFTER a jointed link in joint order
  #  - ref together with an equal springref; springref alone on a clean model
  extra = []
  for i, c in enumerate(list(cases)):
    links = c['model']['links']
    if c['inj']['kind'] == 'none':
      late_free = [k for k, l in enumerate(links, 1) if l['root'] == 'free' and any(m['root'] != 'free' for m in links[:k - 1])]
      if late_free:
        extra.append({**c, 'inj': {'kind': 'free_stiffness', 'site': late_free[-1]}, 'expect': {**c['expect'], 'reject': True}})
      jointed = [(k, 1) for k, l in enumerate(links, 1) if l['root'] != 'free' and l['stack']]
      if jointed and i % 3 == 0:
        extra.append({**c, 'inj': {'kind': 'none', 'site': c['inj']['site'], 'springref_at': list(jointed[0])}})
    elif c['inj']['kind'] == 'ref' and i % 2 == 0:
      extra.append({**c, 'inj': {**c['inj'], 'with_springref': True}})
  cases += extra
  ctx.extra['variant_cases'] = len(extra)
  # every second clean model carries brax's init_qpos option: the nominal start pose the loaded system must report
  rq = core.rng(ctx, 15)
  nclean = 0
  for c in cases:
    if c['inj']['kind'] != 'none':
      continue
    nclean += 1
    if nclean % 2:
      continue
    iq = []
    for l in c['model']['links']:
      if l['root'] == 'free':
        iq += [x + 0.25 for x in render.fvec(l['pos'])] + rq.choice([[1.0, 0.0, 0.0, 0.0], [0.6, 0.0, 0.8, 0.0], [0.0, 0.6, 0.0, 0.8]])
      else:
        iq += [rq.choice([0.0, 0.25, -0.5]) for _ in l['stack']]
    c['init_qpos'] = iq
  kinds = {}
  skipped = {}
  for case, r in par.run('harness.drivers.c14', 'eval_case', cases, x64=False):
    kind = case['inj']['kind']
    if not r['mj_ok']:
      skipped[kind] = skipped.get(kind, 0) + 1
      continue
    kinds[kind] = kinds.get(kind, 0) + 1
    ctx.traces += 1
    ctx.case(key=r['xml'], nontrivial=kind != 'none' or len(case['model']['links']) > 1,
             sample={'injected': case['inj'], 'xml': r['xml']} if len(ctx.samples) < 3 and kind not in ('none',) and
             kinds[kind] == 1 else None)
    info = {'xml': r['xml'], 'injected': case['inj'], 'result': {k: v for k, v in r.items() if k != 'xml'}}
    if case['expect']['reject']:
      if 'load_err' in r:
        continue
      acc = [p for p in PIPES if r['pipes'].get(p) == 'accepted']
      if acc:
        ctx.violation(f'unsupported feature {kind} at {case["inj"]["site"]} accepted by {acc}', info,
                      {'call': 'pipeline.init', 'predicate': f'accepted_{kind}'})
    else:
      if 'load_err' in r:
        ctx.violation(f'clean model rejected at load: {r["load_err"]}', info, {'call': 'mjcf.loads', 'predicate': 'rejected_clean'})
        continue
      rej = {p: v for p, v in r['pipes'].items() if v != 'accepted'}
      if rej:
        ctx.violation(f'clean model rejected by {rej}', info, {'call': 'pipeline.init', 'predicate': 'rejected_clean'})
        continue
      want = case['expect']['structure']
      got = r['structure']
      exp = {'nq': want['nq'], 'nv': want['nv'], 'types': list(want['types']), 'parents': list(want['parents']),
             'qid': list(want['qid']), 'qdid': list(want['qdid'])}
      diffs = [k for k in exp if exp[k] != got[k]]
      iq = case.get('init_qpos') or expected_init_q(case['model'])
      if len(iq) != len(got['init_q']) or np.max(np.abs(np.array(iq) - np.array(got['init_q']))) > 1e-6:
        diffs.append('init_q')
      if any(exp['parents'][i] >= i for i in range(len(exp['parents']))):
        diffs.append('parent_order')
      # the initial pose (init at init_q) agrees with the source model at its reference configuration
      for pn, xp in r.get('init_x', {}).items():
        if np.asarray(xp).shape != np.asarray(r['mj_xpos']).shape or np.max(np.abs(np.asarray(xp) - np.asarray(r['mj_xpos']))) > 1e-5:
          diffs.append(f'initial_link_positions[{pn}]')
          got['init_x'] = r['init_x']
          exp['init_x'] = r['mj_xpos']
          break
      if diffs:
        ctx.violation(f'loaded system disagrees with the source model on {diffs}: got {got}, expected {exp} init_q {iq}',
                      info, {'call': 'mjcf.loads', 'predicate': 'structure'})
  ctx.extra['cases_per_kind'] = kinds
  session(ctx)
  ctx.extra['refused_by_reference_compiler'] = skipped
  missing = [k for k in ('integrator', 'cone', 'wind', 'impratio', 'ref', 'ball', 'solmix', 'priority', 'cylinder',
                         'anchors', 'free_stiffness', 'transmission', 'gaintype', 'none') if kinds.get(k, 0) == 0]
  if missing:
    ctx.note(f'feature kinds not exercised in this run: {missing}')
  ctx.exhaustive = False


def replay(ctx, path):
  with open(path) as f:
    body = json.load(f)
  print(json.dumps(body, indent=1)[:6000])
  ctx.seed, ctx.tier = body.get('seed', ctx.seed), body.get('tier', ctx.tier)
  ctx.quick = ctx.tier == 'quick'
  run(ctx)
