"""C06 — contacts and joint limits are inert until reached; contacts only push; drops rest at the analytic height;
rebounds follow the elasticity.  Real rollouts are projected to integer observables and accepted by ContactLaws.tla."""
from __future__ import annotations

import json
import math
import os

import numpy as np

from harness import core, par, phys, render, tlaval, tlc

PIPES = ['generalized', 'spring', 'positional']
CONST = {'EpsRel': 1000, 'EpsQuat': 1000, 'EpsPush': 1, 'Sink': 50000, 'RestTol': 20000, 'RestSpeed': 50000}


def quant(x, unit):
  if not np.isfinite(x):
    return 2**30
  return int(max(-2**30, min(2**30, round(x / unit))))


def twin_case(case):
  """Worker: runs a model and its twin for `steps` steps; returns the max relative difference and the guards."""
  import jax
  import jax.numpy as jp
  import importlib
  from brax import contact
  from brax.io import mjcf
  a = phys.rollout({**case, 'xml': case['xml_a']})
  b = phys.rollout({**case, 'xml': case['xml_b']})
  if 'brax_error' in a or 'brax_error' in b:
    return {'brax_error': a.get('brax_error') or b.get('brax_error')}
  out = {'diverged': 0}
  diffs = []
  for k in ('pos', 'rot', 'vel', 'ang', 'qd'):
    x, y = np.array(a[k]), np.array(b[k])
    bad_x = not np.all(np.isfinite(x)) or np.max(np.abs(x)) > 1e6
    bad_y = not np.all(np.isfinite(y)) or np.max(np.abs(y)) > 1e6
    if bad_x and bad_y:          # the motion itself blows up, with or without the inert feature: not comparable
      out['diverged'] = 1
      break
    if bad_x or bad_y:           # only one twin blows up: the inert feature made the difference
      diffs.append(float('inf'))
      continue
    scale = 1 + max(np.max(np.abs(x)), np.max(np.abs(y)))
    diffs.append(float(np.max(np.abs(x - y))) / scale)
  out['diff'] = max(diffs) if diffs else 0.0
  rot = np.array(a['rot'])
  out['quat_dev'] = float(np.nan_to_num(np.max(np.abs(np.linalg.norm(rot, axis=-1) - 1)), nan=1.0)) if out['diverged'] == 0 else 0.0
  rotb = np.array(b['rot'])
  out['quat_dev_b'] = float(np.nan_to_num(np.max(np.abs(np.linalg.norm(rotb, axis=-1) - 1)), nan=1.0)) if out['diverged'] == 0 else 0.0
  if case['what'] == 'separated':
    sys = mjcf.loads(case['xml_a'])
    dmin = []
    for t in (0, -1):
      x = type(sys.link.transform)(pos=jp.asarray(np.array(a['pos'])[t]), rot=jp.asarray(np.array(a['rot'])[t]))
      c = contact.get(sys, x)
      dmin.append(float(jp.min(c.dist)) if c is not None else 1.0)
    out['guard_before'] = int(dmin[0] > (1e-4 if case.get('before_only') else 1e-3))
    out['guard_after'] = 1 if case.get('before_only') else int(dmin[1] > 1e-3)
    out['dmin'] = dmin
  else:
    q = np.array(a['q'])
    lo, hi = np.array(case['lo']), np.array(case['hi'])
    idx = np.array(case['lim_idx'], int)
    inside = lambda v: bool(np.all(v[idx] > lo + 1e-3) and np.all(v[idx] < hi - 1e-3)) if len(idx) else True
    out['guard_before'], out['guard_after'] = int(inside(q[0])), int(all(inside(v) for v in q))
  return out


def scene(shape, size, density, z, *, elasticity=0.0, dt=0.002, gravity=-9.81, quat=None, offset=(0.0, 0.0), options=None,
          second=False):
  """One primitive on a free body above a ground plane.  `offset`: lateral position of the geom inside its body (the centre of
  mass is then away from the body origin); `options`: brax scene options (custom numerics); `second`: the same body once
  more, 1.5 m to the side, as a second kinematic tree (observed instead of the first)."""
  gp = f'pos="{offset[0]!r} {offset[1]!r} 0" ' if any(offset) else ''
  if shape == 'sphere':
    g = f'<geom name="g" {gp}type="sphere" size="{size!r}" density="{density!r}"/>'
    rest = size
  elif shape == 'box':
    g = f'<geom name="g" {gp}type="box" size="{size!r} {size * 0.8!r} {size * 0.6!r}" density="{density!r}"/>'
    rest = size * 0.6
  else:  # lying capsule: axis horizontal
    g = f'<geom name="g" {gp}type="capsule" size="{size * 0.5!r} {size!r}" quat="0.7071067811865476 0 0.7071067811865476 0" density="{density!r}"/>'
    rest = size * 0.5
  q = quat or '1 0 0 0'
  opts = ''.join(f'<numeric name="{k}" data="{v!r}"/>' for k, v in (options or {}).items())
  body2 = (f'<body name="b2" pos="1.5 0 {rest + z!r}" quat="{q}"><freejoint/>{g.replace('name="g"', 'name="g2"')}</body>'
           if second else '')
  xml = ('<mujoco><compiler angle="radian"/>'
         f'<option gravity="0 0 {gravity!r}" timestep="{dt!r}"/>'
         f'<custom><numeric name="elasticity" data="{elasticity!r}"/>{opts}</custom>'
         '<worldbody><geom name="ground" type="plane" size="0 0 1"/>'
         f'<body name="b" pos="0 0 {rest + z!r}" quat="{q}"><freejoint/>{g}</body>{body2}</worldbody></mujoco>')
  return xml, rest


def variant(r, shape=None):
  """Scene variations that leave the laws unchanged: centre of mass away from the body origin, a second tree, the spring
  pipeline's mass / inertia scaling."""
  v = {}
  # (off-centre geoms only for spheres, whose single contact acts through the centre of mass: the positional pipeline reports
  # phantom velocities for RESTING off-centre boxes and capsules - observed, outside the property's quantifier, see DESIGN 12.3)
  if shape == 'sphere' and r.random() < 0.5:
    v['offset'] = (r.choice([0.25, -0.15]), r.choice([0.0, 0.1]))
  if r.random() < 0.35:
    v['second'] = True
  if r.random() < 0.35:
    v['options'] = {'spring_mass_scale': r.choice([0.5, 1.0]), 'spring_inertia_scale': r.choice([0.0, 0.5])}
  return v


def run(ctx):
  q = ctx.quick
  r = core.rng(ctx, 6)
  from harness.drivers import c01, c04
  ctx.rule = ('separated: ModelSpace models with plane-colliding geoms above a ground plane (min distance > 1 mm before and '
              'after) vs the twin with collisions disabled; limits: models with limits on some joints, q strictly inside, vs '
              'the twin without any range; unit quaternions on all of them; push-only: sphere/box/capsule 2-20 mm inside the '
              'ground, with and without gravity; drops: 3 s histories through the scenario automaton; rebounds at 1 ms steps. '
              'non-trivial = guard true for inert cases; any drop/rebound/push scene.')
  ctx.assumptions = ['"a few centimetres" = 5 cm; final height within 2 cm of the analytic value and speed below 5 cm/s after 3 s',
                     'twin equality at 1e-9 relative, unit quaternions at 1e-9 (float64)',
                     'rebound margins are the property\'s: +-0.02 positional, -0.02..+0.2 spring']
  os.makedirs(tlc.WORK, exist_ok=True)
  models = [c['model'] for c in c01.relational_cases(ctx, 'c06-models', 3, 10 if q else 80, seed_off=61)]
  twin = []
  steps = 5
  for m in models:
    qv, qdv = phys.float_state(m, r, qscale=1.0, qdscale=0.5)
    # separated: geoms collide with the plane only (plane far below)
    gx = {i: 'contype="1" conaffinity="0"' for i, l in enumerate(m['links'], 1) if l.get('geom')}
    plane = '    <geom name="ground" type="plane" size="0 0 1" pos="0 0 -4" contype="0" conaffinity="1"/>\n'
    xa = render.render(m, collide=True, geom_extra=gx).replace('  <worldbody>\n', '  <worldbody>\n' + plane)
    xb = render.render(m, collide=False).replace('  <worldbody>\n', '  <worldbody>\n' + plane.replace('conaffinity="1"', 'conaffinity="0"'))
    for pipe in PIPES:
      twin.append({'what': 'separated', 'xml_a': xa, 'xml_b': xb, 'pipe': pipe, 'q': qv, 'qd': qdv, 'steps': steps, 'acts': None})
    # limits: needs at least one limited joint
    lim_idx, lo, hi, k = [], [], [], 0
    ml = json.loads(json.dumps(m))
    for l in ml['links']:
      if l['root'] == 'free':
        k += 7
        continue
      for jt in l['stack']:
        if jt['limited']:
          # a range around the current coordinate (so it usually does NOT contain zero), never reached within 5 steps
          a, b = round((qv[k] - r.uniform(0.3, 0.6)) * 1000), round((qv[k] + r.uniform(0.3, 0.6)) * 1000)
          jt['lo'], jt['hi'] = [a, 1000], [b, 1000]
          lim_idx.append(k)
          lo.append(a / 1000)
          hi.append(b / 1000)
        k += 1
    if lim_idx:
      xa = render.render(ml, limits=True)
      xb = render.render(ml, limits=False)
      for pipe in PIPES:
        twin.append({'what': 'limits', 'xml_a': xa, 'xml_b': xb, 'pipe': pipe, 'q': qv, 'qd': qdv, 'steps': steps, 'acts': None,
                     'lim_idx': lim_idx, 'lo': lo, 'hi': hi, 'stacks': c04.stack_class(m)})
  # near-touching but separated primitives approaching the ground fast: contacts are detected at the pre-step pose, so
  # for the spring and generalized pipelines a separated state steps exactly like the collision-free twin
  for _ in range(3 if q else 24):
    shape = r.choice(['sphere', 'box', 'capsule'])
    size, dens, gap, v = r.uniform(0.05, 0.3), r.uniform(200, 3000), r.uniform(0.0005, 0.003), r.uniform(0.5, 3.0)
    xa, _ = scene(shape, size, dens, gap, dt=0.002)
    if r.random() < 0.5:      # a detection margin wider than the gap: the contact is reported early but is not yet active
      xa = xa.replace('<geom name="g" ', f'<geom name="g" margin="{r.choice([0.005, 0.01, 0.05])!r}" ')
    xb = xa.replace('<geom name="ground" type="plane" size="0 0 1"/>', '<geom name="ground" type="plane" size="0 0 1" contype="0" conaffinity="0"/>')
    for pipe in ('generalized', 'spring'):
      twin.append({'what': 'separated', 'xml_a': xa, 'xml_b': xb, 'pipe': pipe, 'q': None, 'qd': [0, 0, -v, 0, 0, 0], 'steps': 1,
                   'acts': None, 'before_only': True})
  # floating primitives spinning fast relative to the step (|w| dt up to 0.8): rotations stay unit quaternions
  for _ in range(2 if q else 12):
    shape = r.choice(['sphere', 'box', 'capsule'])
    size, dens = r.uniform(0.05, 0.3), r.uniform(200, 3000)
    xa, _ = scene(shape, size, dens, 2.0, dt=0.002)
    xb = xa.replace('<geom name="ground" type="plane" size="0 0 1"/>', '<geom name="ground" type="plane" size="0 0 1" contype="0" conaffinity="0"/>')
    w = r.choice([30.0, 100.0, 400.0])
    u = np.array([r.gauss(0, 1) for _ in range(3)])
    u = (u / np.linalg.norm(u) * w).tolist()
    for pipe in PIPES:
      twin.append({'what': 'separated', 'xml_a': xa, 'xml_b': xb, 'pipe': pipe, 'q': None, 'qd': [0, 0, 0] + u, 'steps': 5, 'acts': None})
  traces, info = [], []
  for case, out in par.run('harness.drivers.c06', 'twin_case', twin):
    if 'brax_error' in out:
      ctx.violation(f'{case["pipe"]} raised on a twin case: {out["brax_error"]}', {k: case[k] for k in ('xml_a', 'pipe', 'q', 'qd')},
                    {'call': case['pipe'], 'predicate': 'raised'})
      continue
    evs = [{'kind': 'inert', 'guard_before': out['guard_before'], 'guard_after': out['guard_after'], 'diverged': out['diverged'],
            'diff': quant(out['diff'], 1e-12)},
           {'kind': 'unitquat', 'diverged': out['diverged'], 'dev': quant(max(out['quat_dev'], out['quat_dev_b']), 1e-12)}]
    traces.append(evs)
    info.append((case, out, out['guard_before'] and out['guard_after']))
  # ---- push-only
  push = []
  for _ in range(4 if q else 30):
    shape = r.choice(['sphere', 'box', 'capsule'])
    size, dens, depth = r.uniform(0.05, 0.3), r.uniform(200, 3000), r.uniform(0.002, 0.02)
    qu = np.array([r.gauss(0, 1) for _ in range(4)])
    qu /= np.linalg.norm(qu)
    quat = ' '.join(repr(float(x)) for x in qu) if shape == 'sphere' else None
    for grav in (-9.81, 0.0):
      xml, rest = scene(shape, size, dens, -depth, gravity=grav, quat=quat)
      for pipe in PIPES:
        push.append({'what': 'push', 'xml': xml, 'pipe': pipe, 'q': None, 'qd': None, 'steps': 1, 'acts': None, 'rest': rest,
                     'grav': grav})
  # ---- drops and rebounds
  drops = []
  for _ in range(3 if q else 20):
    shape = r.choice(['sphere', 'box', 'capsule'])
    size, dens, h = r.uniform(0.05, 0.3), r.uniform(200, 3000), r.uniform(0.0, 0.5)
    v = variant(r, shape)
    xml, rest = scene(shape, size, dens, h, **v)
    for pipe in PIPES:
      drops.append({'what': 'drop', 'xml': xml, 'pipe': pipe, 'q': None, 'qd': None, 'steps': 500 if q else 1500, 'acts': None,
                    'rest': rest, 'shape': shape, 'body': 1 if v.get('second') else 0})
  for i in range(3 if q else 24):
    size, e, h = r.uniform(0.05, 0.3), r.uniform(0.0, 0.9), r.uniform(0.2, 1.0)
    if i % 2 == 0:
      # grazing impact: the last contact-free step ends a few micrometres above the plane (free fall under semi-implicit
      # Euler: gap_k = h - g dt^2 k (k + 1) / 2)
      k = r.randint(200, 440)
      h = 9.81 * 0.001 ** 2 * k * (k + 1) / 2 + r.choice([2e-6, 1e-5, 1.8e-5])
      e = r.uniform(0.3, 0.9)
    v = variant(r, 'sphere') if i % 2 else {}
    xml, rest = scene('sphere', size, r.choice([1000.0, 300.0, 2500.0]), h, elasticity=e, dt=0.001, **v)
    T = int((math.sqrt(2 * h / 9.81) * 2.2 + 0.1) / 0.001)
    for pipe in ('spring', 'positional'):
      drops.append({'what': 'rebound', 'xml': xml, 'pipe': pipe, 'q': None, 'qd': None, 'steps': T, 'acts': None, 'rest': rest,
                    'e': e, 'body': 1 if v.get('second') else 0})
  for case, out in par.run('harness.phys', 'rollout', push + drops):
    if 'brax_error' in out:
      ctx.violation(f'{case["pipe"]} raised on a {case["what"]} scene: {out["brax_error"]}', {k: case[k] for k in ('xml', 'pipe')},
                    {'call': case['pipe'], 'predicate': 'raised'})
      continue
    bi = case.get('body', 0)
    z = np.array(out['pos'])[:, bi, 2]
    vz = np.array(out['vel'])[:, bi, 2]
    sp = np.linalg.norm(np.array(out['vel'])[:, bi, :], axis=-1)
    rest = case['rest']
    if case['what'] == 'push':
      # what the CONTACT did: motion relative to the same step of free fall (semi-implicit Euler: v = g dt, dz = g dt^2);
      # under gravity a shallow contact may push less than gravity pulls, which is not "pulled in"
      g, dt = case.get('grav', 0.0), 0.002
      evs = [{'kind': 'push', 'dz': quant(z[1] - z[0] - g * dt * dt, 1e-6), 'vz': quant(vz[1] - g * dt, 1e-6)}]
    elif case['what'] == 'drop':
      evs = [{'kind': 'drop_start'}]
      for t in range(1, len(z)):
        hh = z[t] - rest
        evs.append({'kind': 'drop', 'h': quant(hh, 1e-6), 'v': quant(vz[t], 1e-6), 'touch': int(hh < 0.002),
                    'slow': int(abs(vz[t]) < 0.05)})
      evs.append({'kind': 'drop_end', 'h': quant(z[-1] - rest, 1e-6), 'speed': quant(sp[-1], 1e-6)})
    else:
      # impact speed: most negative vz before the first upward motion; rebound speed: max vz just after
      up = np.where((vz[1:] > 0) & (z[1:] - rest < 0.05))[0]
      if len(up) == 0:
        ratio = 0.0
        vin = float(-np.min(vz))
      else:
        t0 = up[0] + 1
        vin = float(-np.min(vz[:t0 + 1]))
        vout = float(np.max(vz[t0:t0 + 30]))
        ratio = vout / vin
      lo, hi = (-0.02, 0.02) if case['pipe'] == 'positional' else (-0.02, 0.2)
      evs = [{'kind': 'rebound', 'ratio_minus_e': quant(ratio - case['e'], 1e-6), 'lo': quant(lo, 1e-6), 'hi': quant(hi, 1e-6)}]
      out['_ratio'] = ratio
    traces.append(evs)
    info.append((case, {'ratio': out.get('_ratio'), 'zmin_minus_rest': float(np.min(z) - rest), 'zend_minus_rest': float(z[-1] - rest),
                        'speed_end': float(sp[-1])}, True))
  keys = ['kind', 'guard_before', 'guard_after', 'diverged', 'diff', 'dev', 'dz', 'vz', 'h', 'v', 'touch', 'slow', 'speed',
          'ratio_minus_e', 'lo', 'hi']
  tf = os.path.join(tlc.WORK, 'c06.json')
  with open(tf, 'w') as f:
    json.dump([[{k: e.get(k, 0) for k in keys} for e in t] for t in traces], f)
  cfg = os.path.join(tlc.WORK, 'c06.cfg')
  tlc.write_cfg(cfg, init='TraceInit', next_='TraceNext', constants=CONST, constraints=['Progress'], postcondition='AllAccepted')
  res = tlc.run('ContactLaws', cfg, name='c06', workers=1, env={'TRACE_FILE': tf}, timeout=3000)
  ctx.add_tlc(res, 'ContactLaws.tla')
  rejected = tlc.parse_rejects(res, 'c06')
  stats = {}
  for i, (evs, (case, out, nontriv)) in enumerate(zip(traces, info)):
    ctx.traces += 1
    what = case['what']
    stats.setdefault(what, {'n': 0, 'guarded': 0})
    stats[what]['n'] += 1
    stats[what]['guarded'] += int(bool(nontriv))
    ctx.case(key=(case.get('xml') or case['xml_a'], case['pipe'], what), nontrivial=bool(nontriv),
             sample={'what': what, 'pipeline': case['pipe'], 'xml': case.get('xml') or case['xml_a'], 'observed': out}
             if len(ctx.samples) < 4 and nontriv and i % 11 == 0 else None)
    if (i + 1) in rejected:
      at = rejected[i + 1]
      bad = evs[at - 1] if 0 < at <= len(evs) else None
      nolimit_twin = what == 'limits'
      ctx.violation(f'{case["pipe"]} {what}: law {bad["kind"] if bad else "?"} rejected at event {at}: {bad}; observed {out}',
                    {k: v for k, v in case.items() if k != 'acts'} | {'event': bad},
                    {'call': case['pipe'], 'predicate': f'{what}_{bad["kind"] if bad else "trace"}',
                     **({'stacks': case['stacks']} if 'stacks' in case else {})})
  ctx.extra['cases'] = stats
  ctx.exhaustive = False


def replay(ctx, path):
  with open(path) as f:
    body = json.load(f)
  print(json.dumps(body, indent=1)[:6000])
  ctx.seed, ctx.tier = body.get('seed', ctx.seed), body.get('tier', ctx.tier)
  ctx.quick = ctx.tier == 'quick'
  run(ctx)
