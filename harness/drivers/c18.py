"""C18 — running statistics equal the statistics of all data seen.

RunningStats.tla (exact rationals) is model-checked (Welford = population statistics of the bag, sharded = unsharded,
affine lemma); every dumped state's history is replayed into running_statistics.update/normalize/denormalize with the
things the specification says must not matter varied (batch axes, nest kind, dyadic scale/offset, weights=None vs ones);
long random histories go the other way through RunningStatsTrace.tla.
"""
from __future__ import annotations

import json
import math
import os
import re
from fractions import Fraction

import numpy as np

from harness import core, tlaval, tlc

INVS = ['EqualsPopulationStatistics', 'AffineLemma', 'M2NonNegative']


def fr(v):
  return Fraction(v[0], v[1])


def model(ctx, label, consts, seed):
  cfg = os.path.join(tlc.WORK, f'{label}.cfg')
  os.makedirs(tlc.WORK, exist_ok=True)
  tlc.write_cfg(cfg, constants=consts, invariants=INVS)
  dump = os.path.join(tlc.WORK, label)
  res = tlc.run('RunningStats', cfg, name=label, dump=dump, seed=seed, expect_ok=True, coverage=True)
  tlc.require_coverage(res, ['Update', 'ShardedUpdate'], label)
  ctx.add_tlc(res, label)
  return dump + '.dump'


class Replayer:

  def __init__(self, ctx, r, bounds):
    import jax
    jax.config.update('jax_enable_x64', True)
    import jax.numpy as jnp
    from brax.training.acme import running_statistics as rs
    self.jax, self.jnp, self.rs = jax, jnp, rs
    self.ctx, self.r = ctx, r
    self.bounds = bounds  # (Fraction min, Fraction max) or None for the defaults
    self._pm = {}

  def nest(self, kind, cols):
    """cols: float array [..., F] -> nest of the chosen kind."""
    jnp = self.jnp
    F = cols.shape[-1]
    if kind == 'array':
      return jnp.asarray(cols)
    if kind == 'dict':
      return {'a': jnp.asarray(cols[..., :1]), 'b': jnp.asarray(cols[..., 1:])} if F > 1 else {'a': jnp.asarray(cols)}
    if kind == 'nested':
      return {'o': {'x': jnp.asarray(cols[..., 0])}, 'p': jnp.asarray(cols[..., 1:])} if F > 1 else \
          {'o': {'x': jnp.asarray(cols[..., 0])}}
    raise ValueError(kind)

  def flat(self, kind, nest, F):
    n = nest
    if kind == 'array':
      return np.asarray(n)
    if kind == 'dict':
      return np.concatenate([np.asarray(n['a']), np.asarray(n['b'])], -1) if F > 1 else np.asarray(n['a'])
    if kind == 'nested':
      x = np.asarray(n['o']['x'])[..., None]
      return np.concatenate([x, np.asarray(n['p'])], -1) if F > 1 else x

  def pm_update(self, kind, kw):
    key = (kind, tuple(sorted(kw.items())))
    if key not in self._pm:
      rs, jax = self.rs, self.jax

      def f(state, batch, weights):
        return rs.update(state, batch, weights=weights, pmap_axis_name='i', **kw)

      self._pm[key] = jax.pmap(f, axis_name='i')
    return self._pm[key]

  def replay(self, st, label):
    ctx, r, rs, jnp, jax = self.ctx, self.r, self.rs, self.jnp, self.jax
    hist = st['hist']
    if not hist:
      return
    F = len(st['mean'])
    kind = r.choice(['array', 'dict', 'nested'])
    axes = r.choice([1, 1, 2])
    k = r.choice([-10, -3, 0, 0, 4, 10])
    scale = Fraction(2) ** k
    offset = scale * r.choice([0, 0, 3, -5])
    kw = {}
    bounds = self.bounds
    if bounds == 'mixed':  # explicit (1/100, 100) as in the specification, or the library defaults (1e-6, 1e6)
      # ... or a floor far below the library default (a constant column then sits at 1e-8)
      bounds = r.choice([(Fraction(1, 100), Fraction(100)), None, (Fraction(1, 10**8), Fraction(100))])
    if bounds is not None:
      kw = {'std_min_value': float(bounds[0] * scale), 'std_max_value': float(bounds[1] * scale)}
      lo, hi = bounds[0] * scale, bounds[1] * scale
    else:
      lo, hi = Fraction(1, 10**6), Fraction(10**6)
    state = rs.init_state(self.nest(kind, np.zeros((F,))))
    last = None
    for (ukind, b) in hist:
      xs = np.array([[float(Fraction(s['x'][f]) * scale + offset) for f in range(F)] for s in b])
      ws = np.array([float(s['w']) for s in b])
      allone = all(s['w'] == 1 for s in b)
      if ukind == 'sharded':
        h = len(b) // 2
        xs2 = xs.reshape(2, h, F)
        ws2 = ws.reshape(2, h)
        rep = jax.tree_util.tree_map(lambda x: np.stack([np.asarray(x), np.asarray(x)]), state)
        out = self.pm_update(kind, kw)(rep, jax.tree_util.tree_map(np.asarray, self.nest(kind, xs2)), ws2)
        a = jax.tree_util.tree_map(lambda x: np.asarray(x[0]), out)
        bdev = jax.tree_util.tree_map(lambda x: np.asarray(x[1]), out)
        same = jax.tree_util.tree_all(jax.tree_util.tree_map(lambda x, y: np.array_equal(x, y), a, bdev))
        if not same:
          ctx.violation('sharded update: devices disagree after psum', {'hist': hist, 'cfg': label},
                        {'call': 'update', 'predicate': 'psum'})
        state = jax.tree_util.tree_map(lambda x: jnp.asarray(np.asarray(x[0])), out)
      else:
        if axes == 2:
          shp = (1, len(b)) if r.random() < 0.5 else (len(b), 1)
        else:
          shp = (len(b),)
        weights = None if (allone and r.random() < 0.5) else jnp.asarray(ws.reshape(shp))
        state = rs.update(state, self.nest(kind, xs.reshape(shp + (F,))), weights=weights, **kw)
      last = xs
    # ---- compare with the specification
    got_mean = self.flat(kind, state.mean, F)
    got_m2 = self.flat(kind, state.summed_variance, F)
    got_std = self.flat(kind, state.std, F)
    case = {'cfg': label, 'nest': kind, 'batch_axes': axes, 'scale': float(scale), 'offset': float(offset),
            'history': [[u, [[list(s['x'].values()) if isinstance(s['x'], dict) else list(s['x']), s['w']] for s in b]]
                        for u, b in hist], 'std_bounds': [float(lo), float(hi)]}
    bad = []
    if float(state.count) != st['count']:
      bad.append(f'count {float(state.count)} != {st["count"]}')
    for f in range(F):
      em = fr(st['mean'][f]) * scale + offset
      e2 = fr(st['m2'][f]) * scale * scale
      ev = fr(st['exp']['var'][f]) * scale * scale
      sc = st['exp']['stdcase'][f]
      if bounds is None:  # default bounds, scaled data: recompute the clip case from the scaled variance
        sc = 'lo' if ev <= lo * lo else ('hi' if ev >= hi * hi else 'mid')
        if ev != 0 and not (lo * lo * 4 < ev < hi * hi / 4):
          sc = 'skip'
      tol = 1e-9 * (1 + abs(float(em)) + float(abs(scale)))
      if abs(got_mean[f] - float(em)) > tol:
        bad.append(f'mean[{f}] {got_mean[f]!r} != {float(em)!r}')
      if abs(got_m2[f] - float(e2)) > 1e-9 * (float(scale * scale) + abs(float(e2))) + 1e-9 * abs(float(em)) * float(scale) * 4:
        bad.append(f'summed_variance[{f}] {got_m2[f]!r} != {float(e2)!r}')
      # exactly on a clip bound rounding may land on either side: compare with the clipped root to 1e-9
      want_std = min(max(math.sqrt(float(ev)), float(lo)), float(hi))
      if sc == 'lo' and ev < lo * lo * Fraction(999, 1000) and got_std[f] != float(lo):
        bad.append(f'std[{f}] {got_std[f]!r} should be clipped to the minimum {float(lo)!r}')
      elif sc == 'hi' and ev > hi * hi * Fraction(1001, 1000) and got_std[f] != float(hi):
        bad.append(f'std[{f}] {got_std[f]!r} should be clipped to the maximum {float(hi)!r}')
      elif sc != 'skip' and abs(got_std[f] - want_std) > 1e-9 * want_std:
        bad.append(f'std[{f}] {got_std[f]!r} != clip(sqrt(variance)) {want_std!r} (case {sc})')
    # ---- normalize / denormalize on the last batch plus an integer leaf
    # (the last batch and fresh probe rows: on its own data a constant column has x - mean = 0, which hides the divisor)
    last = np.concatenate([last, last + 0.375, last * 1.5 - 2.0], axis=0)
    data = {'f': self.nest(kind, last), 'n': jnp.asarray(np.arange(len(last), dtype=np.int32) * 7 - 3),
            'b': jnp.asarray(np.arange(len(last)) % 3 == 0), 'u': jnp.asarray((np.arange(len(last)) % 5).astype(np.uint8))}
    ms = rs.NestedMeanStd(mean={'f': state.mean, 'n': jnp.zeros(()), 'b': jnp.ones(()) * 0.5, 'u': jnp.ones(())},
                          std={'f': state.std, 'n': jnp.ones(()) * 3, 'b': jnp.ones(()) * 2, 'u': jnp.ones(()) * 2})
    norm = rs.normalize(data, ms)
    back = rs.denormalize(norm, ms)
    nf = self.flat(kind, norm['f'], F)
    bf = self.flat(kind, back['f'], F)
    for f in range(F):
      em = float(fr(st['mean'][f]) * scale + offset)
      want = (last[:, f] - em) / got_std[f]
      if np.max(np.abs(nf[:, f] - want)) > 1e-9 * (1 + np.max(np.abs(want))):
        bad.append(f'normalize[{f}] {nf[:, f].tolist()} != {want.tolist()}')
      if np.max(np.abs(bf[:, f] - last[:, f])) > 1e-9 * (1 + np.max(np.abs(last[:, f]))):
        bad.append(f'denormalize(normalize(x))[{f}] {bf[:, f].tolist()} != {last[:, f].tolist()}')
    for key in ('n', 'b', 'u'):      # non-float leaves (integer ids, boolean flags, bytes) pass through untouched
      for nm, leaf in (('normalize', norm[key]), ('denormalize', back[key])):
        if leaf.dtype != data[key].dtype or not np.array_equal(np.asarray(leaf), np.asarray(data[key])):
          bad.append(f'{nm} changed a {data[key].dtype} leaf: {np.asarray(leaf).tolist()[:6]} dtype {leaf.dtype}')
    nontrivial = len(hist) > 1 or any(s['w'] != 1 for _, b in hist for s in b)
    ctx.case(key=(label, str(hist)), nontrivial=nontrivial,
             sample={**case, 'expected': {'count': st['count'], 'mean': [str(fr(x)) for x in st['mean']],
                                          'm2': [str(fr(x)) for x in st['m2']],
                                          'stdcase': list(st['exp']['stdcase'])}}
             if len(ctx.samples) < 4 and len(hist) > 1 else None)
    ctx.traces += 1
    if bad:
      ctx.violation('running statistics differ from the population statistics of the data seen: ' + '; '.join(bad[:4]),
                    case, {'call': 'running_statistics', 'predicate': 'value'})


def parse_states(dump, limit, r):
  with open(dump) as f:
    txt = f.read()
  blocks = re.split(r'^State \d+:\n', txt, flags=re.M)[1:]
  if limit and len(blocks) > limit:
    blocks = r.sample(blocks, limit)
  for b in blocks:
    st = tlaval.parse_state(b.strip())
    # function-valued fields print as sequences (domain 1..F)
    yield st


def float32_pass(ctx, dump, n, lo, hi):
  import subprocess
  import sys
  env = dict(os.environ)
  env.pop('XLA_FLAGS', None)
  p = subprocess.run([sys.executable, os.path.join(os.path.dirname(__file__), 'c18_f32.py'), dump, str(n),
                      str(ctx.seed), str(lo), str(hi)], capture_output=True, text=True, env=env, timeout=1800)
  m = re.search(r'^RESULT (.*)$', p.stdout, re.M)
  if not m:
    raise tlc.MachineryError('float32 pass failed:\n' + p.stdout[-1000:] + p.stderr[-2000:])
  out = json.loads(m.group(1))
  ctx.extra['float32_states_replayed'] = out['evaluated']
  ctx.extra['float32_constant_columns'] = out['constant_columns']
  ctx.evaluations += out['evaluated']
  ctx.traces += out['evaluated']
  for v in out['violations'][:5]:
    ctx.violation('float32: ' + v['what'], v, {'call': 'running_statistics', 'predicate': 'float32'})


def random_traces(ctx, r, n, label, bounds_names, bounds):
  """Long random integer histories on the real code, validated by RunningStatsTrace.tla."""
  import jax
  import jax.numpy as jnp
  from brax.training.acme import running_statistics as rs
  F = 2
  traces = []
  for t in range(n):
    nb = r.randint(1, 8)
    state = rs.init_state(jnp.zeros((F,)))
    evs = []
    kw = {'std_min_value': float(bounds[0]), 'std_max_value': float(bounds[1])}
    for bi in range(nb):
      m = r.randint(1, 25)
      const_col = r.random() < 0.2
      xs = [[r.randint(-6, 6), (3 if const_col else r.randint(-6, 6))] for _ in range(m)]
      ws = [r.randint(1 if bi == 0 else 0, 4) for _ in range(m)]
      two = r.random() < 0.3
      X = np.array(xs, np.float64)
      W = np.array(ws, np.float64)
      if two:
        X, W = X[None], W[None]
      state = rs.update(state, jnp.asarray(X), weights=jnp.asarray(W), **kw)
      c = float(state.count)
      s1 = np.asarray(state.mean) * c
      q = np.asarray(state.summed_variance) * c
      finite = bool(np.isfinite(c) and np.all(np.isfinite(s1)) and np.all(np.isfinite(q)))
      if not finite:      # a poisoned state is an observation for the trace specification (count -1), not a harness failure
        c, s1, q = -1.0, np.full(F, -1.0), np.full(F, -1.0)
      ok = finite and all(abs(v - round(v)) < 1e-6 for v in list(s1) + list(q)) and abs(c - round(c)) < 1e-9
      std = np.asarray(state.std)
      var = np.asarray(state.summed_variance) / c if finite else np.full(F, np.nan)
      sc = []
      for f in range(F):
        if std[f] == float(bounds[0]):
          sc.append('lo')
        elif std[f] == float(bounds[1]):
          sc.append('hi')
        elif abs(std[f] ** 2 - max(var[f], 0)) <= 1e-9 * max(var[f], 1e-300):
          sc.append('mid')
        else:
          sc.append('bad')
      evs.append({'kind': 'update', 'xs': xs, 'ws': ws, 'count': int(round(c)) if ok else -1,
                  's1': [int(round(v)) for v in s1], 'q': [int(round(v)) for v in q], 'stdcase': sc})
    traces.append(evs)
  tf = os.path.join(tlc.WORK, f'{label}.json')
  with open(tf, 'w') as f:
    json.dump(traces, f)
  cfg = os.path.join(tlc.WORK, f'{label}.cfg')
  tlc.write_cfg(cfg, init='TraceInit', next_='TraceNext',
                constants={'F': F, 'Xs': '<- XsWide', 'Ws': '<- WsWide', 'MaxBatch': 1, 'MaxUpdates': 100, 'NPick': 0,
                           'StdMin': f'<- {bounds_names[0]}', 'StdMax': f'<- {bounds_names[1]}'},
                invariants=['EqualsPopulationStatistics', 'M2NonNegative'], constraints=['Progress'],
                postcondition='AllAccepted')
  res = tlc.run('RunningStatsTrace', cfg, name=label, workers=1, env={'TRACE_FILE': tf})
  ctx.add_tlc(res, label)
  if not res.ok and res.violated in ('EqualsPopulationStatistics', 'M2NonNegative'):
    raise tlc.MachineryError(f'specification invariant {res.violated} fails on a trace state ({label})')
  rejected = tlc.parse_rejects(res, label)
  for t, evs in enumerate(traces):
    ctx.traces += 1
    ctx.case(key=(label, t), nontrivial=len(evs) > 1,
             sample={'cfg': label, 'events': [{k: v for k, v in e.items()} for e in evs[:2]]} if t == 0 else None)
    if (t + 1) in rejected:
      at = rejected[t + 1]
      ctx.violation(f'{label}: recorded update history rejected by RunningStatsTrace at event {at}: '
                    f'{evs[at - 1] if 0 < at <= len(evs) else None}', {'events': evs, 'rejected_at': at},
                    {'call': 'update', 'predicate': 'trace_rejected'})


def run(ctx):
  r = core.rng(ctx)
  q = ctx.quick
  ctx.rule = ('spec->code: every state of the RunningStats.tla graph (all sequences of <=2 batches of <=2 weighted samples '
              'on a small lattice, exhaustive; deeper/wider by random picks) is replayed into init_state/update/'
              'normalize/denormalize under varied batch axes, nest kinds, dyadic scale/offset and weights=None; '
              'code->spec: random integer histories (1-8 batches, up to 200 samples) validated by the trace spec. '
              'non-trivial = more than one batch or a non-unit weight.')
  ctx.assumptions = ['float64 (jax_enable_x64) with tolerance 1e-9 relative; dyadic rescaling is exact and licensed by AffineLemma',
                     'std is compared through its square and the clip case computed by the specification',
                     'sharded path exercised with 2 forced host devices']
  half = (Fraction(1, 2), Fraction(3, 2))
  runs = [
      ('c18-exh', {'F': 1, 'Xs': '<- XsSmall', 'Ws': '<- WsAll', 'MaxBatch': 2, 'MaxUpdates': 2, 'NPick': 0,
                   'StdMin': '<- RHalf', 'StdMax': '<- RThreeHalves'}, half, 1500 if q else 0),
      ('c18-deep', {'F': 2, 'Xs': '<- XsWide', 'Ws': '<- WsWide', 'MaxBatch': 3 if q else 4, 'MaxUpdates': 3 if q else 4,
                    'NPick': 2, 'StdMin': '<- RCenti', 'StdMax': '<- RHecto'}, 'mixed', 400 if q else 0),
  ]
  for label, consts, bounds, limit in runs:
    dump = model(ctx, label, consts, ctx.seed + 3)
    rp = Replayer(ctx, r, bounds)
    n = 0
    for st in parse_states(dump, limit, r):
      rp.replay(st, label)
      n += 1
    ctx.extra[f'{label}_states_replayed'] = n
    if bounds != 'mixed':
      float32_pass(ctx, dump, 300 if q else 3000, float(bounds[0]), float(bounds[1]))
  random_traces(ctx, r, 40 if q else 1500, 'c18-trace', ('RHalf', 'RThreeHalves'), half)
  ctx.exhaustive = False


def replay(ctx, path):
  with open(path) as f:
    body = json.load(f)
  print(json.dumps(body, indent=1)[:3000])
  ctx.seed, ctx.tier = body.get('seed', ctx.seed), body.get('tier', ctx.tier)
  ctx.quick = ctx.tier == 'quick'
  run(ctx)
