"""X05 (coverage beyond the listed properties): sac/losses.py make_losses equals the staged exact computation of
SacLoss.tla.  Every final state is replayed into the real alpha / critic / actor losses through stub networks whose outputs
are read from the observation; the stubs are strict about which action (buffer / freshly sampled / post-processed) and which
parameters (online / target) each call receives, so that a mix-up changes the value."""
from __future__ import annotations

import math
import os

import numpy as np

from harness import core, shim, tlaval, tlc
from harness.drivers.c01 import done_states

INVS = ['TerminalNoBootstrap', 'TruncatedSilent', 'PessimisticTarget', 'CriticNonNegative', 'AlphaPressure']


def fr(v):
  return v[0] / v[1]


def run(ctx):
  shim.install()
  import jax
  jax.config.update('jax_enable_x64', True)
  import jax.numpy as jnp
  from brax.training import types
  from brax.training.agents.sac import losses
  cfg = os.path.join(tlc.WORK, 'x05.cfg')
  os.makedirs(tlc.WORK, exist_ok=True)
  tlc.write_cfg(cfg, constants={'NCases': 400 if ctx.quick else 6000, 'SeedBase': core.seed_base(ctx, 95)}, invariants=INVS)
  dump = os.path.join(tlc.WORK, 'x05')
  res = tlc.run('SacLoss', cfg, name='x05', dump=dump, expect_ok=True, coverage=True)
  tlc.require_coverage(res, ['Target', 'Losses'], 'x05')
  ctx.add_tlc(res, 'SacLoss.tla')
  ctx.rule = ('seeded batches of 1-4 transitions (running / terminated / truncated; temperature, discount, reward scale, action '
              'size on small rationals): the three losses must equal the specification to 1e-12, and d alpha_loss / d log_alpha = '
              'alpha_loss. non-trivial = a batch with a terminated or truncated transition.')
  ctx.assumptions = ['brax.v1 is stubbed for the import']
  SAMPLED, POST, BUFFER, TSHIFT = 7.0, 9.0, 1.0, 10.0

  class Dist:

    def sample_no_postprocessing(self, p, key):
      return jnp.full(p.shape[:-1] + (1,), SAMPLED)

    def log_prob(self, p, action):       # defined for the un-post-processed sample only
      return p[..., 0] + 1000.0 * (action[..., 0] - SAMPLED)

    def postprocess(self, a):
      return a + (POST - SAMPLED)

  class Net:

    def __init__(self, fn):
      self.apply = fn

  def policy_apply(norm, params, obs):
    return obs + params

  def q_apply(norm, params, obs, action):
    m = action[..., :1]
    return jnp.where(m == POST, obs[..., 1:3], jnp.where(m == BUFFER, obs[..., 3:5], 500.0)) + params

  nets = type('SACNetworks', (), {})()
  nets.policy_network, nets.q_network, nets.parametric_action_distribution = Net(policy_apply), Net(q_apply), Dist()
  n = 0
  for s in done_states(dump + '.dump'):
    c, tr = s['cfg'], s['tr']
    N = c['N']
    tr = [tr[i] for i in range(N)] if not isinstance(tr, dict) else [tr[i + 1] for i in range(N)]
    obs = np.array([[fr(t['lp']), fr(t['qpi'][0]), fr(t['qpi'][1]), fr(t['qold'][0]), fr(t['qold'][1])] for t in tr])
    nxt = np.array([[fr(t['nlp']), fr(t['nq'][0]) - TSHIFT, fr(t['nq'][1]) - TSHIFT, 300.0, 300.0] for t in tr])
    data = types.Transition(observation=jnp.asarray(obs), action=jnp.full((N, 1), BUFFER), reward=jnp.asarray([fr(t['r']) for t in tr]),
                            discount=jnp.asarray([float(t['disc']) for t in tr]), next_observation=jnp.asarray(nxt),
                            extras={'state_extras': {'truncation': jnp.asarray([float(t['trunc']) for t in tr])}, 'policy_extras': {}})
    alpha = fr(c['alpha'])
    al, cl, ac = losses.make_losses(nets, reward_scaling=fr(c['scale']), discounting=fr(c['gamma']), action_size=c['A'])
    key = jax.random.PRNGKey(0)
    case = {'N': N, 'alpha': alpha, 'gamma': fr(c['gamma']), 'scale': fr(c['scale']), 'action_size': c['A'],
            'transitions': [{k: (v if isinstance(v, int) else ([fr(x) for x in v] if isinstance(v[0], tuple) else fr(v))) for k, v in t.items()} for t in tr]}
    try:
      got_al, g_al = jax.value_and_grad(al)(jnp.float64(math.log(alpha)), jnp.float64(0.0), None, data, key)
      got_cl = cl(jnp.float64(0.0), jnp.float64(0.0), None, jnp.float64(TSHIFT), jnp.float64(alpha), data, key)
      got_ac = ac(jnp.float64(0.0), None, jnp.float64(0.0), jnp.float64(alpha), data, key)
    except Exception as e:  # pylint: disable=broad-except
      ctx.violation(f'SAC losses raised: {type(e).__name__}: {str(e)[:200]}', case, {'call': 'sac.losses', 'predicate': 'raised'})
      continue
    n += 1
    ctx.traces += 1
    o = s['out']
    ctx.case(key=repr(case), nontrivial=any(t['disc'] == 0 for t in tr),
             sample={**case, 'expected': {k: fr(o[k]) for k in ('critic', 'actor', 'alpha')}} if n == 60 else None)
    for name, got, want in (('critic_loss', float(got_cl), fr(o['critic'])), ('actor_loss', float(got_ac), fr(o['actor'])),
                            ('alpha_loss', float(got_al), fr(o['alpha'])), ('d alpha_loss / d log_alpha', float(g_al), fr(o['alpha']))):
      if not abs(got - want) <= 1e-12 * max(1.0, abs(want)):
        ctx.violation(f'sac {name} = {got!r}, specification {want!r} (N={N}, alpha={alpha})', case, {'call': 'sac.losses', 'predicate': name.split(' ')[0]})
        break
  ctx.extra['batches_replayed'] = n


def replay(ctx, path):
  run(ctx)
