"""X03 (coverage beyond the listed properties): ppo/losses.py compute_ppo_loss equals the staged exact computation of
PpoLoss.tla.  TLC checks the trust-region properties of the clipped objective on every generated batch; every final
state is replayed into the real function through stub networks (value, log-probability and entropy are read from the
observation), including the gradient of the loss with respect to each sample's log-probability."""
from __future__ import annotations

import math
import os

import numpy as np

from harness import core, shim, tlaval, tlc
from harness.drivers.c01 import done_states

INVS = ['Pessimistic', 'NoIncentiveBeyondClip', 'PlainInsideOrWrongWay', 'TruncatedStepsSilent', 'TerminationCutsBootstrap',
        'VLossNonNegative']


def fr(v):
  return v[0] / v[1]


def run(ctx):
  shim.install()
  import jax
  jax.config.update('jax_enable_x64', True)
  import jax.numpy as jnp
  from brax.training import types
  from brax.training.agents.ppo import losses
  cfg = os.path.join(tlc.WORK, 'x03.cfg')
  os.makedirs(tlc.WORK, exist_ok=True)
  tlc.write_cfg(cfg, constants={'NCases': 400 if ctx.quick else 6000, 'SeedBase': core.seed_base(ctx, 93)}, invariants=INVS)
  dump = os.path.join(tlc.WORK, 'x03')
  res = tlc.run('PpoLoss', cfg, name='x03', dump=dump, expect_ok=True, coverage=True)
  tlc.require_coverage(res, ['Gae', 'Terms', 'Loss'], 'x03')
  ctx.add_tlc(res, 'PpoLoss.tla')
  ctx.rule = ('seeded [B, T] batches (T <= 4, B <= 2; running / terminated / truncated steps, ratios on both sides of and on '
              'the clip boundaries, lambda, discount, epsilon, reward scale, entropy cost on small rationals); policy, value '
              'and entropy losses must equal the specification to 1e-12 and d loss / d log pi per sample to 1e-12 (boundary '
              'ratios excluded from the gradient). non-trivial = some sample is clipped and some step terminated or truncated.')
  ctx.assumptions = ['normalize_advantage=False (the standard deviation is irrational)', 'brax.v1 is stubbed for the import']

  class Dist:

    def log_prob(self, logits, raw_action):
      return logits[..., 0] + 0.0 * jnp.sum(raw_action, axis=-1)

    def entropy(self, logits, rng):
      return logits[..., 1]

  class Net:

    def __init__(self, fn):
      self.apply = fn

  def policy_apply(norm, params, obs):
    logits = obs[..., 1:3]
    if obs.ndim == 3:      # the [T, B] batch: per-sample offsets carry the gradient
      logits = logits.at[..., 0].add(params)
    return logits

  def value_apply(norm, params, obs):
    return obs[..., 0] + (params['batch'] if obs.ndim == 3 else params['boot'])

  net = type('PPONetworks', (), {})()
  net.policy_network, net.value_network, net.parametric_action_distribution = Net(policy_apply), Net(value_apply), Dist()

  n = 0
  for s in done_states(dump + '.dump'):
    c, cols = s['cfg'], s['cols']
    T, B = c['T'], c['B']
    cols = [cols[i] for i in range(B)] if not isinstance(cols, dict) else [cols[i + 1] for i in range(B)]
    obs = np.zeros((B, T, 3))
    nxt = np.full((B, T, 3), 99.0)      # only the last next_observation may be read (bootstrap)
    disc, trunc, rew, blogp = np.zeros((B, T)), np.zeros((B, T)), np.zeros((B, T)), np.zeros((B, T))
    for b, col in enumerate(cols):
      for t in range(T):
        num, den = col['rho'][t]
        obs[b, t] = [fr(col['V'][t]), math.log(num), fr(col['ent'][t])]
        blogp[b, t] = math.log(den)
        disc[b, t], trunc[b, t], rew[b, t] = col['disc'][t], col['trunc'][t], fr(col['r'][t])
        if t + 1 < T:
          nxt[b, t, 0] = fr(col['V'][t + 1])
      nxt[b, T - 1] = [fr(col['boot']), 0.0, 0.0]
    data = types.Transition(observation=jnp.asarray(obs), action=jnp.zeros((B, T, 1)), reward=jnp.asarray(rew),
                            discount=jnp.asarray(disc), next_observation=jnp.asarray(nxt),
                            extras={'state_extras': {'truncation': jnp.asarray(trunc)},
                                    'policy_extras': {'raw_action': jnp.zeros((B, T, 1)), 'log_prob': jnp.asarray(blogp)}})
    params = losses.PPONetworkParams(policy=jnp.zeros((T, B)), value={'batch': jnp.zeros((T, B)), 'boot': jnp.zeros((B,))})
    kw = dict(entropy_cost=fr(c['cost']), discounting=fr(c['gam']), reward_scaling=fr(c['scale']), gae_lambda=fr(c['lam']),
              clipping_epsilon=fr(c['eps']), normalize_advantage=False)
    case = {'T': T, 'B': B, **{k: fr(v) for k, v in c.items() if k not in ('T', 'B')},
            'columns': [{k: ([list(x) if isinstance(x, tuple) else x for x in v] if k != 'boot' else list(v)) for k, v in col.items()} for col in cols]}
    try:
      (total, m), g = jax.value_and_grad(lambda p: losses.compute_ppo_loss(p, None, data, jax.random.PRNGKey(0), net, **kw),
                                         has_aux=True)(params)
    except Exception as e:  # pylint: disable=broad-except
      ctx.violation(f'compute_ppo_loss raised: {type(e).__name__}: {str(e)[:200]}', case, {'call': 'compute_ppo_loss', 'predicate': 'raised'})
      continue
    n += 1
    ctx.traces += 1
    o = s['out']
    lo, hi = 1 - fr(c['eps']), 1 + fr(c['eps'])
    clipped = any(not (lo <= fr(col['rho'][t]) <= hi) for col in cols for t in range(T))
    ended = any(col['disc'][t] == 0 for col in cols for t in range(T))
    ctx.case(key=tlaval.to_tla([c['T'], c['B']]) + repr(case), nontrivial=clipped and ended,
             sample={**case, 'expected': {k: fr(o[k]) for k in ('policy', 'v', 'entropy')}} if n == 50 else None)
    bad = None
    for k, name in (('policy', 'policy_loss'), ('v', 'v_loss'), ('entropy', 'entropy_loss')):
      want, got = fr(o[k]), float(m[name])
      if not abs(got - want) <= 1e-12 * max(1.0, abs(want)):
        bad = (name, got, want)
        break
    if bad is None and not abs(float(total) - float(m['policy_loss'] + m['v_loss'] + m['entropy_loss'])) <= 1e-12 * max(1.0, abs(float(total))):
      bad = ('total_loss', float(total), float(m['policy_loss'] + m['v_loss'] + m['entropy_loss']))
    if bad is None:
      gp = np.asarray(g.policy)
      grad = o['grad'] if not isinstance(o['grad'], dict) else [o['grad'][i + 1] for i in range(B)]
      for b in range(B):
        for t in range(T):
          w = grad[b][t]
          if w[1] == 0:
            continue
          if not abs(gp[t, b] - fr(w)) <= 1e-12 * max(1.0, abs(fr(w))):
            bad = (f'd loss / d log pi [b={b}, t={t}]', float(gp[t, b]), fr(w))
            break
        if bad:
          break
    if bad is None:
      gv, gb = np.asarray(g.value['batch']), np.asarray(g.value['boot'])
      vgrad = o['vgrad'] if not isinstance(o['vgrad'], dict) else [o['vgrad'][i + 1] for i in range(B)]
      for b in range(B):
        for t in range(T):
          if not abs(gv[t, b] - fr(vgrad[b][t])) <= 1e-12 * max(1.0, abs(fr(vgrad[b][t]))):
            bad = (f'd loss / d value [b={b}, t={t}]', float(gv[t, b]), fr(vgrad[b][t]))
      if bad is None and np.any(gb != 0):
        bad = ('d loss / d bootstrap value', gb.tolist(), 0.0)
    if bad:
      ctx.violation(f'compute_ppo_loss {bad[0]} = {bad[1]!r}, specification {bad[2]!r} (T={T}, B={B}, eps={fr(c["eps"])})', case,
                    {'call': 'compute_ppo_loss', 'predicate': bad[0].split(' ')[0]})
  ctx.extra['batches_replayed'] = n


def replay(ctx, path):
  run(ctx)
