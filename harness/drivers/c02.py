"""C02 — generalized-pipeline dynamics terms equal the reference engine.

exact part : Dynamics.tla computes M, gravity bias, passive and smooth force from the definitions over exact rationals
             (at rest for any model; with velocity for prismatic-only models); brax must match, the one-step update must
             satisfy (M + dt D)(qd' - qd) = dt * smooth and q' = q + dt qd'; MuJoCo validates the specification.
relational : ModelSpace models at seeded float states with qd != 0 (velocity-product forces matter): brax vs MuJoCo."""
from __future__ import annotations

import json
import os

import numpy as np

from harness import core, par, render, tlaval, tlc
from harness.drivers import c01

DT = 0.002


def motors(model):
  acts = []
  for i, l in enumerate(model['links'], 1):
    if l['root'] == 'free':
      continue
    for j in range(1, len(l['stack']) + 1):
      acts.append({'kind': 'motor', 'link': i, 'j': j, 'gear': 1.0})
  return acts


def eval_case(case):
  import jax
  import jax.numpy as jp
  import mujoco
  from brax import actuator
  from brax.generalized import dynamics, pipeline
  from brax.io import mjcf
  model = case['model']
  grav = case['grav']
  acts = case.get('acts') or motors(model)
  custom = {'matrix_inv_iterations': 0}
  if case.get('init_qpos'):
    custom['init_qpos'] = ' '.join(repr(float(v)) for v in case['init_qpos'])
  xml = render.render(model, gravity=tuple(grav), dt=DT, actuators=acts, custom=custom)
  q, qd = (np.array(case['q']), np.array(case['qd'])) if 'q' in case else c01.qvec(model, case['pose'])
  tau = np.array(case['tau'])
  sys = mjcf.loads(xml)
  mj = mujoco.MjModel.from_xml_string(xml)
  # ctrl vector: motors are on the 1-dof joints in coordinate order
  dofadr = []
  for i, l in enumerate(model['links'], 1):
    if l['root'] != 'free':
      for j in range(1, len(l['stack']) + 1):
        jid = mujoco.mj_name2id(mj, mujoco.mjtObj.mjOBJ_JOINT, f'J{i}_{j}')
        dofadr.append(int(mj.jnt_dofadr[jid]))
  ctrl = np.array(case['ctrl']) if 'ctrl' in case else (tau[dofadr] if dofadr else np.zeros(0))

  @jax.jit
  def terms(q, qd, tau, ctrl):
    st = pipeline.init(sys, q, qd)
    out = {'M': st.mass_mx, 'bias': dynamics.inverse(sys, st), 'passive': dynamics._passive(sys, st),
           'smooth': dynamics.forward(sys, st, actuator.to_tau(sys, ctrl, q, qd))}   # total smooth force incl. actuation
    st2 = pipeline.step(sys, st, ctrl)
    out.update(q2=st2.q, qd2=st2.qd, M2=st2.mass_mx)
    st3 = pipeline.step(sys, pipeline.step(sys, st2, ctrl), ctrl)
    out.update(q4=st3.q, qd4=st3.qd)
    return out

  try:
    o = {k: np.asarray(v).tolist() for k, v in terms(jp.asarray(q), jp.asarray(qd), jp.asarray(tau), jp.asarray(ctrl)).items()}
  except Exception as e:  # the code under test failed: a verdict, not a machinery error
    return {'xml': xml, 'q': q.tolist(), 'qd': qd.tolist(), 'tau': tau.tolist(), 'brax_error': f'{type(e).__name__}: {str(e)[:300]}'}
  d = mujoco.MjData(mj)
  d.qpos[:] = q
  d.qvel[:] = qd
  if mj.nu:
    d.ctrl[:] = ctrl
  mujoco.mj_forward(mj, d)
  M = np.zeros((mj.nv, mj.nv))
  mujoco.mj_fullM(mj, d, M)
  ref = {'M': M.tolist(), 'bias': d.qfrc_bias.tolist(), 'passive': d.qfrc_passive.tolist(),
         'smooth': (d.qfrc_passive - d.qfrc_bias + d.qfrc_actuator).tolist()}
  mujoco.mj_step(mj, d)
  ref.update(q2=d.qpos.tolist(), qd2=d.qvel.tolist())
  mujoco.mj_forward(mj, d)
  M2 = np.zeros((mj.nv, mj.nv))
  mujoco.mj_fullM(mj, d, M2)
  ref['M2'] = M2.tolist()
  mujoco.mj_step(mj, d)
  mujoco.mj_step(mj, d)
  ref.update(q4=d.qpos.tolist(), qd4=d.qvel.tolist())
  return {'xml': xml, 'q': q.tolist(), 'qd': qd.tolist(), 'tau': tau.tolist(), 'brax': o, 'mj': ref}


def session_case(case):
  """Several systems evaluated one after the other in ONE process (hidden state carried between systems)."""
  return [eval_case(c) for c in case['members']]


def retopologise(model):
  """A model with the same links, hence the same link-type string, but another parent topology (chain <-> star), or None."""
  links = model['links']
  for k in range(len(links) - 1, min(len(links), 2) - 1, -1)[:1]:     # only the LAST link: depth-first body order is kept
    l = links[k]                                                        # (0-based k; candidates: the root path of link k)
    if k < 2 or l['root'] == 'free' or not l['parent']:
      continue
    path, p = [], k          # root path of the previous link (1-based ids)
    while p:
      path.append(p)
      p = links[p - 1]['parent']
    alt = [p for p in path if p != l['parent']]
    if alt:
      m2 = json.loads(json.dumps(model))
      m2['links'][k]['parent'] = alt[-1] if l['parent'] == k else k
      return m2
  return None


def mx(a, b):
  a, b = np.asarray(a, float), np.asarray(b, float)
  if a.shape != b.shape:
    return float('inf')
  return float(np.max(np.abs(a - b))) if a.size else 0.0


def fmat(m):
  return [[render.fl(x) for x in row] for row in m]


def tags_for(model, what):
  kinds = set()
  rotated = False
  for l in model['links']:
    for jt in l['stack']:
      kinds.add(jt['kind'])
    if l['quat'] != ((1, 1), (0, 1), (0, 1), (0, 1)):
      rotated = True
  return {'call': 'generalized', 'predicate': what}


def raised(ctx, case, r):
  if 'brax_error' in r:
    ctx.violation(f'generalized pipeline raised: {r["brax_error"]}', {k: r[k] for k in ('xml', 'q', 'qd', 'tau')},
                  tags_for(case['model'], 'raised'))
    return True
  return False


def judge_exact(ctx, case, r):
  if raised(ctx, case, r):
    return
  out = case['out']
  nv = out['nv']
  bx, mj = r['brax'], r['mj']
  spec = {'M': fmat(out['M']), 'bias': [render.fl(x) for x in out['bias']], 'passive': [render.fl(x) for x in out['passive']],
          'smooth': [render.fl(x) for x in out['smooth']]}
  info = {k: r[k] for k in ('xml', 'q', 'qd', 'tau')}
  scale = 1 + max(np.max(np.abs(spec['M'])), np.max(np.abs(spec['smooth'])) if nv else 0)
  for k in ('M', 'bias', 'passive', 'smooth'):
    if mx(spec[k], mj[k]) > 1e-8 * scale:
      raise tlc.MachineryError(f'Dynamics.tla and MuJoCo disagree on {k}: {spec[k]} vs {mj[k]}\n{r["xml"]}\nq={r["q"]} qd={r["qd"]}')
  for k, what in (('M', 'mass_matrix'), ('bias', 'bias'), ('passive', 'passive'), ('smooth', 'smooth')):
    if mx(spec[k], bx[k]) > 1e-9 * scale:
      ctx.violation(f'{what}: brax {bx[k]} differs from the specification / reference {spec[k]}', info, tags_for(case['model'], what))
      return
  Mb = np.array(bx['M'])
  if nv and (mx(Mb, Mb.T) > 1e-12 * scale or np.min(np.linalg.eigvalsh((Mb + Mb.T) / 2)) <= 0):
    ctx.violation(f'mass matrix not symmetric positive definite: {bx["M"]}', info, tags_for(case['model'], 'spd'))
    return
  # the step relation, with the specification's exact M, D and smooth force
  D = np.diag([render.fl(x) for x in out['damping']])
  dqd = np.array(bx['qd2']) - np.array(r['qd'])
  res = (np.array(spec['M']) + DT * D) @ dqd - DT * np.array(spec['smooth'])
  if nv and np.max(np.abs(res)) > 1e-9 * scale * DT * 10:
    ctx.violation(f'step: (M + dt D)(qd\' - qd) - dt*smooth = {res.tolist()} (qd\' = {bx["qd2"]}, reference {mj["qd2"]})', info,
                  tags_for(case['model'], 'step_qd'))
    return
  judge_q_update(ctx, case['model'], r, info)


def judge_q_update(ctx, model, r, info):
  bx = r['brax']
  q, q2, qd2 = np.array(r['q']), np.array(bx['q2']), np.array(bx['qd2'])
  qi = di = 0
  for l in model['links']:
    if l['root'] == 'free':
      if np.max(np.abs(q2[qi:qi + 3] - (q[qi:qi + 3] + DT * qd2[di:di + 3]))) > 1e-12:
        ctx.violation('step: free-root position not advanced with the new velocity', info, tags_for(model, 'step_q'))
        return
      if abs(np.linalg.norm(q2[qi + 3:qi + 7]) - 1) > 1e-9:
        ctx.violation('step: free-root quaternion not unit', info, tags_for(model, 'step_q'))
        return
      qi += 7
      di += 6
    else:
      n = len(l['stack'])
      if np.max(np.abs(q2[qi:qi + n] - (q[qi:qi + n] + DT * qd2[di:di + n]))) > 1e-12:
        ctx.violation(f'step: q\' != q + dt qd\' on link joints: {q2[qi:qi + n].tolist()}', info, tags_for(model, 'step_q'))
        return
      qi += n
      di += n


def judge_rel(ctx, case, r):
  if raised(ctx, case, r):
    return
  bx, mj = r['brax'], r['mj']
  info = {k: r[k] for k in ('xml', 'q', 'qd', 'tau')}
  scale = 1 + max(np.max(np.abs(mj['M'])), np.max(np.abs(mj['smooth'])), np.max(np.abs(mj['bias'])))
  for k, what in (('M', 'mass_matrix'), ('bias', 'bias'), ('passive', 'passive'), ('smooth', 'smooth')):
    if mx(mj[k], bx[k]) > 1e-7 * scale:
      ctx.violation(f'{what}: brax {bx[k]} differs from the reference engine {mj[k]}', info, tags_for(case['model'], what))
      return
  if mx(mj['qd2'], bx['qd2']) > 1e-7 * scale:
    ctx.violation(f'step: qd\' {bx["qd2"]} differs from the reference engine {mj["qd2"]}', info, tags_for(case['model'], 'step_qd'))
    return
  if mx(mj['M2'], bx['M2']) > 1e-6 * scale:
    ctx.violation(f'mass matrix carried after the step {bx["M2"]} is not the inertia matrix of the new configuration {mj["M2"]}',
                  info, tags_for(case['model'], 'mass_matrix_after_step'))
    return
  if np.all(np.abs(mj['qd4']) < 1e3) and mx(mj['qd4'], bx['qd4']) > 1e-5 * scale * (1 + np.max(np.abs(mj['qd4']))):
    ctx.violation(f'three steps: qd {bx["qd4"]} differs from the reference engine {mj["qd4"]}', info,
                  tags_for(case['model'], 'step3_qd'))
    return
  # q: quaternions up to sign
  q2b, q2m = np.array(bx['q2']), np.array(mj['q2'])
  qi = 0
  for l in case['model']['links']:
    if l['root'] == 'free':
      if mx(q2b[qi:qi + 3], q2m[qi:qi + 3]) > 1e-9 or c01.qdiff(q2b[qi + 3:qi + 7], q2m[qi + 3:qi + 7]) > 1e-8:
        ctx.violation(f'step: free-root q\' {q2b[qi:qi + 7].tolist()} differs from the reference {q2m[qi:qi + 7].tolist()}', info,
                      tags_for(case['model'], 'step_q'))
        return
      qi += 7
    else:
      n = len(l['stack'])
      if mx(q2b[qi:qi + n], q2m[qi:qi + n]) > 1e-9:
        ctx.violation(f'step: q\' {q2b.tolist()} differs from the reference {q2m.tolist()}', info, tags_for(case['model'], 'step_q'))
        return
      qi += n


def run(ctx):
  q = ctx.quick
  ctx.rule = ('exact: TLC draws ModelSpace models (1-2 links quick / 1-3 thorough, any roots, stacks, skew axes, inertial '
              'offsets/orientations, armature, damping, stiffness) with rational poses inside the inertia denominator budget, '
              'gravity in 4 directions, joint forces through unit motors; at rest, or moving for prismatic-only models. '
              'relational: the same model space to 5 links at seeded float (q, qd, tau). non-trivial = a rotated body.')
  ctx.assumptions = ['exact part covers velocity-product forces only where they vanish (at rest; prismatic-only under world '
                     'roots); general Coriolis terms are compared against MuJoCo in the relational part (1e-7 relative)',
                     'matrix_inv_iterations = 0 (exact inverse); limits present but never reached; no contacts',
                     'free-root quaternion update compared with the reference in the relational part only']
  os.makedirs(tlc.WORK, exist_ok=True)
  cfg = os.path.join(tlc.WORK, 'c02.cfg')
  dump = os.path.join(tlc.WORK, 'c02')
  # 32-bit budget of the exact inertia sums: three-link chains may overflow with a /5 rotation in them (a loud TLC error);
  # fall back to rotation-free three-link models, then to two links
  res = None
  for maxl, budget in ([(2, 1)] if q else [(3, 1), (3, 0), (2, 1)]):
    tlc.write_cfg(cfg, constants={'Class': '"any"', 'MaxLinks': maxl, 'NModels': 60 if q else 800,
                                  'NPoses': 2, 'Budget': budget, 'SeedBase': core.seed_base(ctx, 2)},
                  invariants=['MassSymmetric', 'MassPositive', 'ModelWellFormed'])
    try:
      res = tlc.run('Dynamics', cfg, name='c02', dump=dump, seed=ctx.seed + 21, expect_ok=True)  # (-coverage exhausts the heap on the deep rational recursion)
    except tlc.MachineryError as e:
      if 'Overflow' not in str(e) and 'Overflow' not in open(os.path.join(tlc.WORK, 'c02', 'tlc.out')).read():
        raise
      ctx.note(f'Dynamics.tla MaxLinks={maxl} Budget={budget}: 32-bit overflow in the exact sums, retrying with a smaller budget')
      continue
    ctx.extra['exact_model_space'] = {'MaxLinks': maxl, 'Budget': budget}
    break
  if res is None:
    raise tlc.MachineryError('Dynamics.tla overflows at every budget')
  ctx.add_tlc(res, 'Dynamics.tla')
  cases = []
  for s in c01.done_states(dump + '.dump'):
    cases.append({'model': s['model'], 'pose': s['pose'], 'grav': [render.fl(x) for x in s['grav']],
                  'tau': [render.fl(x) for x in s['tau']], 'out': s['out']})
  if not cases:
    raise tlc.MachineryError('Dynamics.tla produced no computed state')
  moving = 0
  for case, r in par.run('harness.drivers.c02', 'eval_case', cases):
    ctx.traces += 1
    if not case['out']['atrest']:
      moving += 1
    ctx.case(key=(r['xml'], tuple(r['q']), tuple(r['qd'])), nontrivial=c01.nontrivial(case['model']),
             sample={'xml': r['xml'], 'q': r['q'], 'qd': r['qd'], 'expected_M': fmat(case['out']['M'])}
             if len(ctx.samples) < 2 and case['out']['nv'] > 1 else None)
    if 'brax_error' in r:
      raised(ctx, case, r)
      continue
    judge_exact(ctx, case, r)
  ctx.extra.update(exact_cases=len(cases), exact_cases_with_velocity=moving)
  rr = core.rng(ctx, 22)
  rel = []
  relc = c01.relational_cases(ctx, 'c02-rel', 6, 14 if q else 300, seed_off=23)
  # deep serial chains (every link the child of the previous one): ancestors many levels up contribute to M
  deep = []
  for c in c01.relational_cases(ctx, 'c02-deep', 6, 60 if q else 400, seed_off=24):
    n = len(c['model']['links'])
    if n == 6 and all(l['root'] != 'free' for l in c['model']['links'][1:]):
      nv6 = render.structure(c['model'])[1]
      c = {**c, 'grav': [0.0, 0.0, -9.81], 'tau': [0.0] * nv6, 'acts': None}
      m2 = json.loads(json.dumps(c['model']))
      for k, l in enumerate(m2['links']):
        l['parent'] = k
      deep.append({**c, 'model': m2})
      if len(deep) >= (2 if q else 30):
        break
  ctx.extra['deep_chain_cases'] = len(deep)
  for c in relc + deep:
    nq, nv, _, _ = render.structure(c['model'])
    c['grav'] = [0.0, 0.0, -9.81] if rr.random() < 0.5 else [rr.uniform(-5, 5) for _ in range(3)]
    tau = []
    for l in c['model']['links']:
      tau += [0.0] * 6 if l['root'] == 'free' else [rr.uniform(-2, 2) for _ in l['stack']]
    c['tau'] = tau
    # mixed actuators (motor / position / velocity with gear), several per joint possible; smooth force then comes
    # from the actuators, so the externally supplied tau of dynamics.forward is what the actuators produce
    sites = [(i, j) for i, l in enumerate(c['model']['links'], 1) if l['root'] != 'free' for j in range(1, len(l['stack']) + 1)]
    acts = []
    for _ in range(rr.randint(0, 4) if sites else 0):
      i, j = rr.choice(sites)
      kind = rr.choice(['motor', 'position', 'velocity'])
      a = {'kind': kind, 'link': i, 'j': j, 'gear': rr.choice([1.0, 2.0, -1.5, 0.5])}
      if kind == 'position':
        a['kp'] = rr.choice([1.0, 5.0])
      if kind == 'velocity':
        a['kv'] = rr.choice([0.5, 3.0])
      acts.append(a)
    c['acts'] = acts or None
    c['ctrl'] = [rr.uniform(-2, 2) for _ in acts] if acts else None
    if not acts:
      c.pop('ctrl')
    rel.append(c)
  # brax's own init_qpos option (a custom numeric the reference compiler ignores) on half of the cases: joint springs
  # still rest at q = 0 whatever the nominal start pose is
  for c in rel:
    if rr.random() < 0.5:
      nq = render.structure(c['model'])[0]
      iq, k = [rr.uniform(-0.8, 0.8) for _ in range(nq)], 0
      for l in c['model']['links']:
        if l['root'] == 'free':
          iq[k + 3:k + 7] = [1.0, 0.0, 0.0, 0.0]
          k += 7
        else:
          k += len(l['stack'])
      c['init_qpos'] = iq
  for case, r in par.run('harness.drivers.c02', 'eval_case', rel):
    ctx.case(key=(r['xml'], tuple(r['q'])), nontrivial=True)
    judge_rel(ctx, case, r)
  ctx.extra['relational_cases'] = len(rel)
  # sessions: a model, its re-parented twin (same link-type string, other topology), the model again -- in one process
  sessions = []
  for c in rel:
    m2 = retopologise(c['model'])
    if m2 is None or c.get('acts'):
      continue
    twin = {k: v for k, v in c.items() if k not in ('model', 'init_qpos')}
    twin['model'] = m2
    sessions.append({'members': [c, twin, c]})
    if len(sessions) >= (4 if q else 60):
      break
  for sess, rs in par.run('harness.drivers.c02', 'session_case', sessions, chunksize=1):
    for case, r in zip(sess['members'], rs):
      ctx.case(key=('session', r['xml'], tuple(r['q'])), nontrivial=True)
      judge_rel(ctx, case, r)
  ctx.extra['sessions_same_types_other_topology'] = len(sessions)
  ctx.exhaustive = False


def replay(ctx, path):
  with open(path) as f:
    body = json.load(f)
  print(json.dumps(body, indent=1)[:6000])
  ctx.seed, ctx.tier = body.get('seed', ctx.seed), body.get('tier', ctx.tier)
  ctx.quick = ctx.tier == 'quick'
  run(ctx)
