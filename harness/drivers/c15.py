"""C15 — episode, auto-reset and evaluation wrappers keep exact episode accounting.

TLC model-checks EpisodeWrappers.tla over all schedules x L x R; the real wrapper stacks
(training.wrap order, envs.create order, EvalWrapper, DomainRandomizationVmapWrapper), acting.generate_unroll
and acting.Evaluator are run on a scripted environment whose batch members all carry different
schedules, and every member's history is validated by EpisodeWrappersTrace.tla.
"""
from __future__ import annotations

import itertools
import json
import os
import re

import numpy as np

from harness import core, shim, tlaval, tlc

INVS = ['CutExactly', 'NeverOverrun', 'TruncationIffTimeLimit', 'RewardIsSubstepSum', 'CounterIsLedger',
        'CounterRestarts', 'ResetObsAfterDone', 'EpisodeReplays', 'EvalFirstEpisodeOnly']


def make_env_cls():
  import jax
  import jax.numpy as jp
  from brax.envs.base import Env, State
  from flax import struct

  @struct.dataclass
  class ScriptSys:
    gain: jax.Array

  class Scripted(Env):
    """Deterministic scripted environment; member identity and schedule come from the reset key."""

    def __init__(self, table, gain=1.0, by_key=True, done_dtype=jp.float32, latch=False, reset_reward=0.0):
      self.reset_reward = reset_reward   # an environment may report a reward / metrics already at reset
      self.table = jp.asarray(np.asarray(table, np.int32))  # [NS, T]
      self.sys = ScriptSys(gain=jp.float32(gain))
      self.by_key = by_key
      self.done_dtype = done_dtype   # environments are free to report done in a narrow dtype
      self.latch = latch             # ... and to latch done = max(previous done, condition)

    def reset(self, rng):
      m = (rng[-1] % self.table.shape[0]).astype(jp.int32) if self.by_key else jp.int32(0)
      a0 = (self.sys.gain - 1.0) * jp.array([1.0, 2.0], jp.float32)   # the reset state depends on the system parameter
      # 'blow' is 0 while the episode runs and +inf in the terminal state (a simulation that blew up and terminated)
      ps = {'t': jp.int32(0), 'm': m, 'acc': a0, 'blow': jp.float32(0)}
      obs = jp.array([0.0, 0.0, 0.0]).at[1].set(a0[0]).at[2].set(a0[1]) + jp.array([1000.0, 0, 0]) * m
      if self.reset_reward:
        return State(ps, obs, jp.float32(self.reset_reward), jp.zeros((), self.done_dtype), {'m': jp.float32(1.5)}, {})
      return State(ps, obs, jp.float32(0), jp.zeros((), self.done_dtype), {}, {})

    def step(self, state, action):
      ps = state.pipeline_state
      t1 = ps['t'] + 1
      acc = ps['acc'] + jp.array([1.0, 2.0]) * action[0]
      tc = jp.clip(t1 - 1, 0, self.table.shape[1] - 1)
      done = jp.where(t1 - 1 < self.table.shape[1], self.table[ps['m'], tc], 0).astype(jp.float32)
      if self.latch:
        done = jp.maximum(done, state.done.astype(jp.float32))
      reward = self.sys.gain * (2.0 ** (t1 % 16)).astype(jp.float32)
      obs = jp.array([0.0, 0, 0]).at[0].set(1000.0 * ps['m'] + t1).at[1].set(acc[0]).at[2].set(acc[1])
      nps = {'t': t1, 'm': ps['m'], 'acc': acc, 'blow': jp.where(done > 0, jp.inf, 0.0).astype(jp.float32)}
      return state.replace(pipeline_state=nps, obs=obs, reward=reward, done=done.astype(self.done_dtype))

    @property
    def observation_size(self):
      return 3

    @property
    def action_size(self):
      return 1

    @property
    def backend(self):
      return 'scripted'

  return Scripted, ScriptSys


def model_check(ctx, maxl, maxr, slen):
  cfg = os.path.join(tlc.WORK, 'c15-mc.cfg')
  os.makedirs(tlc.WORK, exist_ok=True)
  tlc.write_cfg(cfg, constants={'MaxL': maxl, 'MaxR': maxr, 'SLen': slen, 'HorizonEps': 3},
                invariants=INVS, constraints=['Horizon'])
  res = tlc.run('EpisodeWrappers', cfg, name='c15-mc', coverage=True, expect_ok=True)
  ctx.add_tlc(res, f'model-check L<={maxl} R<={maxr} all schedules of length {slen}')
  # reachability of the named deviation and of both kinds of cut (vacuity guards)
  for inv, what in [('~MidRepeatDoneOverwritten', 'mid-repeat termination overwritten'),
                    ('~(Stepped /\\ s.trunc = 1)', 'time-limit cut'),
                    ('~(Stepped /\\ s.done = 1 /\\ s.trunc = 0 /\\ g.npre < L)', 'termination cut'),
                    ('~(Stepped /\\ g.ep > 2)', 'third episode')]:
    pass
  return res


def _events_from_run(hdr, rec, m, B):
  """Per-member event list from stacked numpy logs."""
  evs = [hdr]
  for i, st in enumerate(rec):
    obs = st['obs'][m]
    ok = abs(obs[2] - 2 * obs[1]) < 1e-6
    e = {
        'obs': [int(round(obs[0] - 1000 * st['m'][m])), int(round(obs[1]))] if ok else [-1, -1],
        't': int(st['t'][m]), 'acc': int(round(st['acc'][m][0])),
        'reward': int(round(float(st['reward'][m]))), 'done': int(st['done'][m]),
        'steps': int(st['steps'][m]), 'trunc': int(st['trunc'][m]),
        'fobs': [int(round(st['fobs'][m][0] - 1000 * st['m'][m])), int(round(st['fobs'][m][1]))],
        'ft': int(st['ft'][m]),
        'blow': 0 if float(st['blow'][m]) == 0.0 else 1,
        'esum': int(round(float(st['esum'][m]))) if 'esum' in st else 0,
        'active': int(st['active'][m]) if 'active' in st else 0,
        'epsteps': int(st['epsteps'][m]) if 'epsteps' in st else 0,
        'tr': 0,
    }
    if i > 0:
      e['a'] = int(st['a'][m])
      if 'tobs' in st:
        e.update(tr=1, tobs=[int(round(st['tobs'][m][0] - 1000 * st['m'][m])), int(round(st['tobs'][m][1]))],
                 tnext=[int(round(st['tnext'][m][0] - 1000 * st['m'][m])), int(round(st['tnext'][m][1]))],
                 discount=int(st['discount'][m]), treward=int(round(float(st['treward'][m]))),
                 ttrunc=int(st['ttrunc'][m]))
    evs.append(e)
  return evs


def _snapshot(state, a=None):
  d = {
      'obs': np.asarray(state.obs), 't': np.asarray(state.pipeline_state['t']),
      'm': np.asarray(state.pipeline_state['m']), 'acc': np.asarray(state.pipeline_state['acc']),
      'reward': np.asarray(state.reward), 'done': np.asarray(state.done).astype(np.float32),
      'steps': np.asarray(state.info['steps'] if 'steps' in state.info else np.zeros_like(np.asarray(state.reward))).astype(np.float32),
      'trunc': np.asarray(state.info['truncation'] if 'truncation' in state.info else np.zeros_like(np.asarray(state.reward))).astype(np.float32),
      'blow': np.asarray(state.pipeline_state['blow']).astype(np.float32),
      'fobs': np.asarray(state.info['first_obs']), 'ft': np.asarray(state.info['first_pipeline_state']['t']),
  }
  if 'eval_metrics' in state.info:
    em = state.info['eval_metrics']
    d.update(esum=np.asarray(em.episode_metrics['reward']), active=np.asarray(em.active_episodes),
             epsteps=np.asarray(em.episode_steps))
  if a is not None:
    d['a'] = np.asarray(a)[:, 0]
  return d


def run_config(ctx, r, L, R, order, scheds, nsteps, *, use_eval, random_actions, gains=None, label='', done_dtype=None, noep=False,
               eager=False):
  """Runs one wrapper stack on a batch whose member i follows scheds[i]; returns per-member traces."""
  import jax
  import jax.numpy as jp
  from brax.envs.wrappers import training
  from brax.training import acting
  Scripted, ScriptSys = make_env_cls()
  B = len(scheds)
  T = max(1, max(len(s) for s in scheds))
  table = np.zeros((B, T), np.int32)
  for i, s in enumerate(scheds):
    table[i, :len(s)] = s
  import jax.numpy as _jp
  env0 = Scripted(table, done_dtype=done_dtype or _jp.float32, latch=noep)
  if order == 'autoreset_only':
    # envs.create(..., episode_length=None, auto_reset=True): AutoResetWrapper without an EpisodeWrapper underneath
    env = training.AutoResetWrapper(training.VmapWrapper(env0))
  elif order == 'wrap':
    env = training.wrap(env0, episode_length=L, action_repeat=R)
  elif order == 'create':
    env = training.AutoResetWrapper(training.VmapWrapper(training.EpisodeWrapper(env0, L, R)))
  elif order == 'registry':
    # the public factory: envs.create(name, episode_length, action_repeat, auto_reset, batch_size) splits ONE key itself,
    # so which schedule a member follows is read back from its state after reset
    from brax import envs as brax_envs
    brax_envs.register_environment('verif_scripted', lambda **kw: Scripted(table))
    env = brax_envs.create('verif_scripted', episode_length=L, action_repeat=R, auto_reset=True, batch_size=B)
  elif order == 'randomized':
    gv = jp.asarray(np.asarray(gains, np.float32))

    def rand_fn(sys):
      return sys.replace(gain=gv), ScriptSys(gain=0)

    env = training.wrap(env0, episode_length=L, action_repeat=R, randomization_fn=rand_fn)
  else:
    raise ValueError(order)
  if use_eval:
    env = training.EvalWrapper(env)
  keys = jp.asarray(np.stack([np.full(B, 12345, np.uint32), np.arange(B, dtype=np.uint32)], 1))
  reset = jax.jit(env.reset)
  step = jax.jit(env.step)
  if order == 'registry':
    keys = jax.random.PRNGKey(r.randint(0, 10**6))
  state = reset(keys)
  member_sched = np.asarray(state.pipeline_state['m'])      # schedule index each member actually follows
  rec = [_snapshot(state)]
  acts = []
  rr = np.random.RandomState(r.randint(0, 2**31 - 1))

  def policy_np(obs):
    t = np.asarray(obs)[:, 0] % 1000
    return ((t // R) % 3).astype(np.float32)[:, None]

  for i in range(nsteps):
    if random_actions:
      a = rr.randint(-1, 3, size=(B, 1)).astype(np.float32)
    else:
      a = policy_np(state.obs)
    acts.append(a)
    if eager:
      # uncompiled execution: the step must be a function of (state, action) -- calling it twice on the same state and once
      # compiled gives three equal results.  (Whether the info dict of the state passed in is left untouched is NOT compared:
      # AutoResetWrapper zeroes info['steps'] of a finished input state in place, which no result depends on.)
      e1 = env.step(state, jp.asarray(a))
      e2 = env.step(state, jp.asarray(a))
      c1 = step(state, jp.asarray(a))
      snaps = [_snapshot(x, a) for x in (e1, e2, c1)]
      for name, u, v in (('eager twice', snaps[0], snaps[1]), ('eager vs compiled', snaps[0], snaps[2])):
        diff = [k for k in u if not np.array_equal(u[k], v[k], equal_nan=True)]
        if diff:
          ctx.violation(f'{label} ({order}, L={L} R={R}) step {i}: {name}: fields {diff} differ: '
                        f'{[(np.asarray(u[k]).tolist(), np.asarray(v[k]).tolist()) for k in diff[:2]]}',
                        {'L': L, 'R': R, 'order': order, 'step': i, 'scheds': scheds}, {'call': order, 'predicate': 'eager_' + name.split()[0]})
          return []
      state = e1
    else:
      state = step(state, jp.asarray(a))
    rec.append(_snapshot(state, a))
  # the same history through acting.generate_unroll (transitions must chain)
  if not random_actions:
    def policy(obs, key):
      t = obs[:, 0] % 1000
      return ((t // R) % 3).astype(jp.float32)[:, None], {}

    st0 = reset(keys)
    _, tr = acting.generate_unroll(env, st0, policy, jax.random.PRNGKey(0), nsteps, extra_fields=('truncation',))
    for i in range(nsteps):
      rec[i + 1].update(tobs=np.asarray(tr.observation[i]), tnext=np.asarray(tr.next_observation[i]),
                        discount=np.asarray(tr.discount[i]), treward=np.asarray(tr.reward[i]),
                        ttrunc=np.asarray(tr.extras['state_extras']['truncation'][i]))
  traces = []
  for m in range(B):
    hdr = {'L': L, 'R': R, 'sched': [int(x) for x in scheds[int(member_sched[m])]], 'gain': int(gains[m]) if gains is not None else 1,
           'eval': 1 if use_eval else 0, 'order': order, 'label': label, 'noep': 1 if noep else 0}
    traces.append(_events_from_run(hdr, rec, m, B))
  return traces


def validate(ctx, traces, label, invs=INVS):
  tf = os.path.join(tlc.WORK, f'{label}.json')
  with open(tf, 'w') as f:
    json.dump(traces, f)
  cfg = os.path.join(tlc.WORK, f'{label}.cfg')
  tlc.write_cfg(cfg, init='TraceInit', next_='TraceNext',
                constants={'MaxL': 1, 'MaxR': 1, 'SLen': 1, 'HorizonEps': 1},
                invariants=invs, constraints=['Progress'], postcondition='AllAccepted')
  res = tlc.run('EpisodeWrappersTrace', cfg, name=label, workers=1, env={'TRACE_FILE': tf})
  ctx.add_tlc(res, label)
  rejected = {}
  if not res.ok:
    if res.violated and res.violated != 'Postcondition' and res.violated in INVS:
      raise tlc.MachineryError(f'specification invariant {res.violated} fails on a trace state ({label})')
    rejected = tlc.parse_rejects(res, label)
  for i, evs in enumerate(traces):
    hdr = evs[0]
    ctx.traces += 1
    dones = [e['done'] for e in evs[2:]]
    truncs = [e['trunc'] for e in evs[2:]]
    nontrivial = any(dones)
    ctx.case(key=(hdr['L'], hdr['R'], tuple(hdr['sched']), hdr['order'], hdr['gain'], hdr['eval'],
                  tuple(e['a'] for e in evs[2:])),
             nontrivial=nontrivial,
             sample={'header': hdr, 'first_events': evs[1:5]} if i == 0 and len(ctx.samples) < 4 else None)
    if any(truncs):
      ctx.extra['episodes_cut_by_time_limit'] = ctx.extra.get('episodes_cut_by_time_limit', 0) + sum(truncs)
    ctx.extra['episodes_terminated'] = ctx.extra.get('episodes_terminated', 0) + sum(
        d and not t for d, t in zip(dones, truncs))
    if (i + 1) in rejected:
      at = rejected[i + 1]
      bad = evs[at - 1] if 0 < at <= len(evs) else (evs[1] if at == 0 else None)
      prev = evs[at - 2] if at >= 3 else None
      ctx.violation(f'{label}: member history is not a behaviour of EpisodeWrappers (L={hdr["L"]} R={hdr["R"]} '
                    f'sched={hdr["sched"]} order={hdr["order"]}); rejected at event {at}: {bad}; previous: {prev}',
                    {'trace': evs, 'rejected_at': at}, {'call': hdr['order'], 'predicate': 'trace_rejected'})


def evaluator_cases(ctx, r, cases):
  """acting.Evaluator on identical members: metrics must equal the spec-validated single-member values."""
  import jax
  import jax.numpy as jp
  from brax.envs.wrappers import training
  from brax.training import acting
  Scripted, _ = make_env_cls()
  for (L, R, sched) in cases:
    env0 = Scripted(np.asarray([list(sched) or [0]], np.int32), by_key=False)
    env = training.wrap(env0, episode_length=L, action_repeat=R)

    def policy(obs, key, R=R):
      t = obs[:, 0] % 1000
      return ((t // R) % 3).astype(jp.float32)[:, None], {}

    B = 3
    evaluator = acting.Evaluator(env, lambda params: policy, num_eval_envs=B, episode_length=L, action_repeat=R,
                                 key=jax.random.PRNGKey(r.randint(0, 1000)))
    metrics = evaluator.run_evaluation(None, {})
    # reference: the manual EvalWrapper loop for L // R steps, validated by TLC like every other trace
    n = L // R
    traces = run_config(ctx, r, L, R, 'wrap', [list(sched)], n, use_eval=True, random_actions=False,
                        label='evaluator-ref')
    validate(ctx, traces, f'c15-evalref-{L}-{R}-{"".join(map(str, sched))}')
    last = traces[0][-1]
    want = {'eval/episode_reward': last['esum'], 'eval/avg_episode_length': last['epsteps'],
            'eval/episode_reward_std': 0}
    got = {k: float(metrics[k]) for k in want}
    ctx.case(key=('evaluator', L, R, tuple(sched)), nontrivial=last['esum'] > 0)
    if any(abs(got[k] - want[k]) > 1e-6 for k in want):
      ctx.violation(f'Evaluator.run_evaluation L={L} R={R} sched={sched}: metrics {got}, specification {want}',
                    {'L': L, 'R': R, 'sched': list(sched), 'got': got, 'want': want},
                    {'call': 'Evaluator.run_evaluation', 'predicate': 'metrics'})


def eager_unbatched(ctx, r):
  """Un-batched, un-compiled use (a notebook, a debugger): EpisodeWrapper / AutoResetWrapper directly around the scripted
  environment.  Stepping the same state object twice, and once compiled, gives three equal results; replaying an episode from
  its first state gives the same episode."""
  import jax
  import jax.numpy as jp
  from brax.envs.wrappers import training
  Scripted, _ = make_env_cls()
  n = 0
  for R in (1, 2):
    for auto in (False, True):
      L = r.randint(3, 5)
      sched = [1 if r.random() < 0.15 else 0 for _ in range(12)]
      env = training.EpisodeWrapper(Scripted(np.asarray([sched], np.int32), by_key=False), L, R)
      if auto:
        env = training.AutoResetWrapper(env)
      cstep = jax.jit(env.step)
      s0 = env.reset(jax.random.PRNGKey(3))
      flat = lambda st: [np.asarray(x) for x in jax.tree_util.tree_leaves((st.obs, st.reward, st.done, st.pipeline_state, st.info))]
      histories = []
      for rollout in range(2):
        st, hist = s0, []
        for i in range(L + 2):
          a = jp.asarray([float((i + R) % 3 - 1)])
          e1, e2, c1 = env.step(st, a), env.step(st, a), cstep(st, a)
          n += 1
          for name, u, v in (('eager twice', flat(e1), flat(e2)), ('eager vs compiled', flat(e1), flat(c1))):
            if len(u) != len(v) or any(not np.array_equal(x, y, equal_nan=True) for x, y in zip(u, v)):
              ctx.violation(f'un-batched {"AutoReset(Episode)" if auto else "Episode"} wrapper, L={L} R={R}, step {i} of rollout {rollout + 1}: '
                            f'{name} differ: steps {np.asarray(e1.info["steps"]).tolist()} / {np.asarray((e2 if name == "eager twice" else c1).info["steps"]).tolist()}, '
                            f'done {float(e1.done)} / {float((e2 if name == "eager twice" else c1).done)}',
                            {'L': L, 'R': R, 'auto_reset': auto, 'sched': sched, 'step': i}, {'call': 'unbatched', 'predicate': 'eager_' + name.split()[0]})
              return
          hist.append((np.asarray(e1.obs).tolist(), float(e1.reward), float(e1.done), float(e1.info['truncation'])))
          st = e1
        histories.append(hist)
      ctx.traces += 1
      ctx.case(key=('eager_unbatched', L, R, auto, tuple(sched)), nontrivial=True)
      if histories[0] != histories[1]:
        ctx.violation(f'un-batched wrapper, L={L} R={R}: replaying from the same reset state gives another episode: {histories[0]} vs {histories[1]}',
                      {'L': L, 'R': R, 'auto_reset': auto, 'sched': sched}, {'call': 'unbatched', 'predicate': 'replay_differs'})
        return
  ctx.extra['eager_unbatched_steps'] = n


def eval_reset_metrics(ctx, r):
  """EvalWrapper accumulates what the STEPS of the first episode report: an environment that already reports a reward or
  metrics at reset does not start the totals from those."""
  import jax
  import jax.numpy as jp
  from brax.envs.wrappers import training
  Scripted, _ = make_env_cls()
  for R in (1, 2):
    B, L = 3, 6
    env = training.EvalWrapper(training.wrap(Scripted(np.zeros((B, 8), np.int32), reset_reward=0.5), episode_length=L, action_repeat=R))
    keys = jp.asarray(np.stack([np.full(B, 12345, np.uint32), np.arange(B, dtype=np.uint32)], 1))
    st = jax.jit(env.reset)(keys)
    step = jax.jit(env.step)
    em = st.info['eval_metrics']
    got0 = {k: np.asarray(v).tolist() for k, v in em.episode_metrics.items()}
    want_r, k = np.zeros(B), 0
    bad = None
    if any(np.any(np.asarray(v) != 0) for v in em.episode_metrics.values()):
      bad = f'at reset the evaluation totals are {got0}, not zero'
    for i in range(3):
      st = step(st, jp.ones((B, 1)) * float(i % 2))
      want_r += np.asarray(st.reward)
      k += 1
      em = st.info['eval_metrics']
      gr, gm = np.asarray(em.episode_metrics['reward']), np.asarray(em.episode_metrics['m'])
      if bad is None and (np.max(np.abs(gr - want_r)) > 1e-6 or np.max(np.abs(gm - 1.5 * k)) > 1e-6):
        bad = f'after {k} steps the evaluation totals are reward {gr.tolist()} m {gm.tolist()}; the steps reported {want_r.tolist()} and {1.5 * k}'
    ctx.traces += 1
    ctx.case(key=('eval_reset_metrics', R), nontrivial=True)
    if bad:
      ctx.violation(f'EvalWrapper (action_repeat {R}) on an environment that reports reward 0.5 and a metric at reset: {bad}',
                    {'action_repeat': R, 'reset_reward': 0.5}, {'call': 'EvalWrapper', 'predicate': 'reset_metrics'})


def run(ctx):
  shim.install()
  r = core.rng(ctx)
  quick = ctx.quick
  maxl, maxr, slen = (4, 2, 6) if quick else (6, 3, 8)
  ctx.rule = ('TLC: all termination schedules of length SLen x L x R, horizon 3 episode lengths, 9 ledger invariants. '
              'Binding: one batch per (L, R, wrapper order) whose members carry ALL schedules (each member a different '
              'one); every member history (State fields after reset and after each step, plus the transitions recorded '
              'by acting.generate_unroll) validated as a behaviour of the spec. distinct = (L, R, schedule, order, '
              'actions); non-trivial = the history contains at least one episode end.')
  ctx.assumptions = [
      'the wrapped environment is a scripted deterministic Env (real brax Env subclass); rewards 2^(t mod 16) make '
      'sub-step sums identify the sub-steps included',
      'R not dividing L: the cut happens at the first wrapped step whose sub-step count reaches L (grain of the wrapper)',
      'a termination reported only by a non-final sub-step of a repeat is overwritten by the wrapper; modelled as the '
      'code behaves (MidRepeatDoneOverwritten), not asserted against',
      'brax.v1 is stubbed so that brax.training.acting imports on the pinned JAX',
  ]
  model_check(ctx, maxl, maxr, slen)
  scheds = [list(s) for s in itertools.product([0, 1], repeat=slen)]
  for L, R, order in itertools.product(range(1, maxl + 1), range(1, maxr + 1), ['wrap', 'create', 'registry']):
    n = 3 * ((L + R - 1) // R) + 1
    tr = run_config(ctx, r, L, R, order, scheds, n, use_eval=(order == 'wrap'), random_actions=(order == 'registry'),
                    label='exhaustive')
    validate(ctx, tr, f'c15-{order}-L{L}-R{R}', invs=INVS if order != 'registry' else [x for x in INVS if x != 'EpisodeReplays'])
  # domain randomisation: per-member gain, schedules shuffled so neighbours differ
  for L, R in ([(3, 2), (4, 1)] if quick else [(l, rr) for l in (2, 3, 5, 6) for rr in (1, 2, 3)]):
    sub = r.sample(scheds, 16)
    gains = [r.randint(1, 5) for _ in sub]
    tr = run_config(ctx, r, L, R, 'randomized', sub, 3 * ((L + R - 1) // R) + 1, use_eval=True,
                    random_actions=False, gains=gains, label='domain-randomization')
    validate(ctx, tr, f'c15-rand-L{L}-R{R}')
  # environments may report `done` in a narrow dtype; the step counter must still count to a long time limit
  import jax.numpy as _jp
  for dd in (_jp.bfloat16, _jp.uint8):
    tr = run_config(ctx, r, 300, 1, 'wrap', [[0] * 8, [0] * 5 + [1]], 650 if not quick else 320, use_eval=False,
                    random_actions=True, label=f'done-dtype-{dd.__name__}', done_dtype=dd)   # (stepped in a Python loop: a scan over steps needs a fixed info dtype)
    validate(ctx, tr, f'c15-dtype-{dd.__name__}', invs=[x for x in INVS if x != 'EpisodeReplays'])
  # AutoResetWrapper without an EpisodeWrapper (envs.create(episode_length=None)) around an env that latches `done`
  sub = [[1 if r.random() < 0.2 else 0 for _ in range(30)] for _ in range(8)]
  tr = run_config(ctx, r, 1000000, 1, 'autoreset_only', sub, 40, use_eval=False, random_actions=True, label='autoreset-only', noep=True)
  validate(ctx, tr, 'c15-autoreset-only', invs=[])
  # longer random schedules, random actions, bigger L
  for i in range(4 if quick else 40):
    L, R = r.randint(1, 12), r.randint(1, 4)
    sl = r.randint(9, 40)
    sub = [[1 if r.random() < r.choice([0.05, 0.2, 0.5]) else 0 for _ in range(sl)] for _ in range(16)]
    tr = run_config(ctx, r, L, R, r.choice(['wrap', 'create']), sub, r.randint(10, 40), use_eval=False,
                    random_actions=True, label='sampled-long')
    # EpisodeReplays presupposes the same action sequence in every episode; not so with random actions
    validate(ctx, tr, f'c15-long-{i}', invs=[x for x in INVS if x != 'EpisodeReplays'])
  ev_cases = [(L, R, tuple(s)) for L, R, s in
              [(4, 2, (0, 0, 1, 0)), (3, 1, (0, 0, 0, 0)), (5, 2, (0, 0, 0, 0, 0)), (6, 3, (0, 1, 0, 0, 0, 0)),
               (2, 1, (1, 0))]]
  if not quick:
    ev_cases += [(r.randint(1, 8), r.randint(1, 3), tuple(r.choice(scheds))) for _ in range(25)]
  evaluator_cases(ctx, r, ev_cases)
  eager_unbatched(ctx, r)
  eval_reset_metrics(ctx, r)
  ctx.exhaustive = True
  ctx.extra['exhaustive_scope'] = f'all 2^{slen} schedules x L in 1..{maxl} x R in 1..{maxr} x 2 wrapper orders'


def replay(ctx, path):
  with open(path) as f:
    body = json.load(f)
  print(json.dumps(body, indent=1)[:3000])
  ctx.seed, ctx.tier = body.get('seed', ctx.seed), body.get('tier', ctx.tier)
  ctx.quick = ctx.tier == 'quick'
  run(ctx)
