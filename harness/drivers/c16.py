"""C16 — bundled environments honour the Env contract and stay finite.  Rollouts of every (environment, backend) pair
through the training wrappers are recorded and validated by the contract automaton EnvContract.tla."""
from __future__ import annotations

import hashlib
import json
import os

import numpy as np

from harness import core, par, tlaval, tlc

ENVS = ['ant', 'halfcheetah', 'hopper', 'humanoid', 'humanoidstandup', 'inverted_pendulum', 'inverted_double_pendulum',
        'pusher', 'reacher', 'swimmer', 'walker2d']
BACKENDS = ['generalized', 'spring', 'positional']


def rollout(case):
  import jax
  import jax.numpy as jp
  from brax import envs
  from brax.envs.wrappers import training
  name, backend, B, T, seed = case['env'], case['backend'], case['batch'], case['steps'], case['seed']
  evs = []
  try:
    env = envs.get_environment(name, backend=backend, **case.get('kwargs', {}))
    evs.append({'ev': 'make', 'env': name, 'backend': backend, 'result': 'ok'})
  except Exception as e:  # pylint: disable=broad-except
    evs.append({'ev': 'make', 'env': name, 'backend': backend, 'result': 'raise'})
    return {'events': evs, 'err': f'{type(e).__name__}: {str(e)[:100]}'}
  wenv = training.wrap(env, episode_length=1000, action_repeat=1)
  reset = jax.jit(wenv.reset)
  step = jax.jit(wenv.step)
  obs_size, act_size = env.observation_size, env.action_size
  ids = {}

  def digest(state):
    h = hashlib.sha1()
    for x in (state.obs, state.reward, state.done, state.pipeline_state.q, state.pipeline_state.qd):
      h.update(np.asarray(x).tobytes())
    return ids.setdefault(h.hexdigest(), len(ids) + 1)

  def flags(state):
    obs = np.asarray(state.obs)
    ps = state.pipeline_state
    arrs = [obs, np.asarray(state.reward), np.asarray(state.done), np.asarray(ps.q), np.asarray(ps.qd)]
    rot = np.asarray(ps.x.rot)
    return {'obs_ok': int(obs.shape == (B, obs_size)), 'finite': int(all(np.all(np.isfinite(a)) for a in arrs)),
            'unit': int(np.all(np.isfinite(rot)) and float(np.max(np.abs(np.linalg.norm(rot, axis=-1) - 1))) < 1e-4),
            'done': int(np.max(np.asarray(state.done))) if np.all(np.isin(np.asarray(state.done), [0, 1])) else 7,
            'done_all': np.asarray(state.done).tolist()}

  detail = None
  for run in range(3):           # run 2 repeats run 0 exactly (determinism); run 1 uses bang-bang actions
    kid = 1 if run in (0, 2) else 2
    key = jax.random.split(jax.random.PRNGKey(seed + kid), B)
    rs = np.random.RandomState(seed * 7 + kid)
    try:
      state = reset(key)
    except Exception as e:  # pylint: disable=broad-except
      evs.append({'ev': 'reset', 'key': kid, 'done': 9, 'obs_ok': 0, 'finite': 0, 'unit': 0, 'digest': 0})
      return {'events': evs, 'err': f'reset: {type(e).__name__}: {str(e)[:160]}'}
    f = flags(state)
    evs.append({'ev': 'reset', 'key': kid, 'done': f['done'], 'obs_ok': f['obs_ok'], 'finite': f['finite'], 'unit': f['unit'],
                'digest': digest(state)})
    pre = hashlib.sha1()
    nsteps = T if run < 2 else min(T, 50)
    for t in range(1, nsteps + 1):
      if kid == 1:
        a = rs.uniform(-1, 1, size=(B, act_size))
      elif t <= 60 or (t - 61) % 60 == 0:       # bang-bang: a fresh corner every step at first, then held for 60 steps
        a = rs.choice([-1.0, 1.0], size=(B, act_size))
      if kid == 1 and B >= 8:
        # four members follow degenerate schedules instead: no control at all, two held corners, a small held action
        # (a robot standing still or pressing steadily against the ground is where resting contacts are exercised)
        a = a.copy()
        a[0], a[1], a[2], a[3] = 0.0, 1.0, -1.0, 0.3
        if case.get('x64'):      # the small double-precision batches: half of the members get no control at all
          a[4:6] = 0.0
      a = a.astype(np.float32 if not case.get('x64') else np.float64)
      pre.update(a.tobytes())
      try:
        state = step(state, jp.asarray(a))
        act_ok = 1
      except Exception as e:  # pylint: disable=broad-except
        evs.append({'ev': 'step', 'key': kid, 't': t, 'act_ok': 0, 'done': 9, 'obs_ok': 0, 'finite': 0, 'unit': 0,
                    'digest': 0, 'prefix': 0})
        return {'events': evs, 'err': f'step: {type(e).__name__}: {str(e)[:160]}'}
      f = flags(state)
      if detail is None and not (f['finite'] and f['unit'] and f['obs_ok']):
        detail = f'run {run} step {t}: flags {f}'
      evs.append({'ev': 'step', 'key': kid, 't': t, 'act_ok': act_ok, 'done': f['done'], 'obs_ok': f['obs_ok'],
                  'finite': f['finite'], 'unit': f['unit'], 'digest': digest(state),
                  'prefix': ids.setdefault('p' + pre.hexdigest(), len(ids) + 1)})
  # purity under eager, un-vmapped use: two roll-outs from the SAME reset state object must coincide and must not alter it
  if case.get('eager'):
    try:
      e2 = envs.create(name, episode_length=4, auto_reset=True, backend=backend)
      s0 = e2.reset(jax.random.PRNGKey(seed))
      steps0 = np.asarray(s0.info['steps']).copy()
      seqs = []
      for _ in range(2):
        st, seq = s0, []
        for t in range(6):
          st = e2.step(st, jp.ones(act_size) * (0.3 if t % 2 else -0.3))
          seq.append((np.asarray(st.obs).tobytes(), float(st.done)))
        seqs.append(seq)
      pure = int(seqs[0] == seqs[1] and np.array_equal(np.asarray(s0.info['steps']), steps0))
      evs.append({'ev': 'purity', 'pure': pure})
      if not pure and detail is None:
        detail = f'eager: two roll-outs from one reset state differ or altered it: dones {[d for _, d in seqs[0]]} vs {[d for _, d in seqs[1]]}, steps before/after {steps0.tolist()} / {np.asarray(s0.info["steps"]).tolist()}'
    except Exception as e:  # pylint: disable=broad-except
      evs.append({'ev': 'purity', 'pure': 0})
      detail = detail or f'eager purity check raised: {type(e).__name__}: {str(e)[:160]}'
  return {'events': evs, 'err': detail}


def option_pair(case):
  """Two instances of one environment class in ONE process - one with a non-default observation option, one default, in the
  given order - each driven through a short contract rollout."""
  first, second = (case['kwargs'], {}) if case['option_first'] else ({}, case['kwargs'])
  base = {k: case[k] for k in ('env', 'backend', 'batch', 'steps', 'seed')}
  return [rollout({**base, 'kwargs': first}), rollout({**base, 'kwargs': second})]


KEYS = ['ev', 'env', 'backend', 'result', 'key', 'done', 'obs_ok', 'finite', 'unit', 'digest', 't', 'act_ok', 'prefix', 'pure']


def run(ctx):
  q = ctx.quick
  ctx.rule = ('every registered physics environment x {generalized, spring, positional}: construct, wrap with training.wrap, '
              f'reset and step batches of {32 if q else 128} for {200 if q else 1000} steps under uniform and bang-bang (per-step and held) actions, '
              'then re-run the first rollout; the recorded events (shape/finite/unit-quaternion flags, done, state digests) '
              'are validated by the contract automaton. non-trivial = a supported pair that ran its rollouts.')
  ctx.assumptions = ['default float32 (thorough tier adds float64 legs of the spring and positional backends, except inverted_double_pendulum whose done dtype is not scan-stable under x64); unit quaternion tolerance 1e-4', 'four batch members follow degenerate schedules (no control, held corners, small held action)', 'determinism is checked by bit-identical state digests '
                     'of a repeated rollout in the same process', 'support matrix: swimmer is generalized-only']
  cases = [{'env': e, 'backend': b, 'batch': 32 if q else 128, 'steps': 200 if q else 1000, 'seed': ctx.seed,
            'eager': (e, b) in (('inverted_pendulum', 'positional'), ('reacher', 'spring'))}
           for e in ENVS for b in BACKENDS]
  traces, errs = [], []
  for case, r in par.run('harness.drivers.c16', 'rollout', cases, x64=False, procs=11):
    traces.append([{k: e.get(k, -1) for k in KEYS} for e in r['events']])
    errs.append(r.get('err'))
  # observation options: the declared size must follow the option, for every instance (two instances per process)
  optcases = [{'env': e, 'backend': 'positional' if e != 'swimmer' else 'generalized', 'batch': 8, 'steps': 3, 'seed': ctx.seed,
               'kwargs': {'exclude_current_positions_from_observation': False}, 'option_first': i % 2 == 0}
              for i, e in enumerate(['ant', 'halfcheetah', 'hopper', 'walker2d', 'humanoid', 'swimmer'])]
  for case, rs in par.run('harness.drivers.c16', 'option_pair', optcases, x64=False, procs=6):
    for k, r in enumerate(rs):
      first_has_option = case['option_first'] == (k == 0)
      cases.append({**case, 'kwargs': case['kwargs'] if first_has_option else {}, 'label': f'instance {k + 1} of 2'})
      traces.append([{kk: e.get(kk, -1) for kk in KEYS} for e in r['events']])
      errs.append(r.get('err'))
  if not q:
    # double precision legs of the maximal-coordinate backends (small batches, full episode): degenerate schedules included
    cases64 = [{'env': e, 'backend': b, 'batch': 8, 'steps': 1000, 'seed': ctx.seed + 1, 'x64': True}
               for e in ENVS for b in ('spring', 'positional') if e != 'inverted_double_pendulum']
    for case, r in par.run('harness.drivers.c16', 'rollout', cases64, x64=True, procs=11):
      traces.append([{k: e.get(k, -1) for k in KEYS} for e in r['events']])
      errs.append(r.get('err'))
    cases = cases + cases64
  os.makedirs(tlc.WORK, exist_ok=True)
  tf = os.path.join(tlc.WORK, 'c16.json')
  with open(tf, 'w') as f:
    json.dump(traces, f)
  cfg = os.path.join(tlc.WORK, 'c16.cfg')
  tlc.write_cfg(cfg, init='TraceInit', next_='TraceNext', constraints=['Progress'], postcondition='AllAccepted')
  res = tlc.run('EnvContract', cfg, name='c16', workers=1, env={'TRACE_FILE': tf}, timeout=3000)
  ctx.add_tlc(res, 'EnvContract.tla')
  rejected = tlc.parse_rejects(res, 'c16')
  for i, (case, evs) in enumerate(zip(cases, traces)):
    ctx.traces += 1
    ran = len(evs) > 10
    ctx.case(key=(case['env'], case['backend'], bool(case.get('x64')), str(case.get('kwargs')), case.get('label')), nontrivial=ran,
             sample={'env': case['env'], 'backend': case['backend'], 'events': evs[:3]} if i == 0 else None)
    if (i + 1) in rejected:
      at = rejected[i + 1]
      bad = evs[at - 1] if 0 < at <= len(evs) else None
      ctx.violation(f'{case["env"]}/{case["backend"]}{" " + str(case["kwargs"]) + " " + case.get("label", "") if case.get("kwargs") is not None and "label" in case else ""}: rollout rejected by EnvContract at event {at}: {bad}; {errs[i]}',
                    {'env': case['env'], 'backend': case['backend'], 'rejected_at': at, 'event': bad, 'error': errs[i],
                     'batch': case['batch'], 'steps': case['steps'], 'seed': case['seed']},
                    {'call': f'{case["env"]}/{case["backend"]}', 'predicate': bad['ev'] if bad else 'trace'})
  ctx.exhaustive = False


def replay(ctx, path):
  with open(path) as f:
    body = json.load(f)
  print(json.dumps(body, indent=1)[:3000])
  ctx.seed, ctx.tier = body.get('seed', ctx.seed), body.get('tier', ctx.tier)
  ctx.quick = ctx.tier == 'quick'
  run(ctx)
