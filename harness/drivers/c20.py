"""C20 — the tanh-normal policy distribution.

TanhNormal.tla gives exact symbolic log-probabilities at log-rational points (x = 1/2 ln k, k rational or 2^m up to
|m| = 115); NormalTanhDistribution must reproduce them.  InferenceFlow.tla validates the recorded dataflow of the PPO
inference function (recording proxies injected through the public PPONetworks arguments)."""
from __future__ import annotations

import json
import math
import os
from fractions import Fraction

import numpy as np

from harness import core, tlaval, tlc
from harness.drivers.c01 import done_states

LN2PI = math.log(2 * math.pi)


def eval_form(f):
  """r + l2pi ln(2 pi) + sum c ln(arg) with Python integers inside the logs."""
  v = float(Fraction(*f['r'])) + float(Fraction(*f['l2pi'])) * LN2PI
  for c, arg in f['logs']:
    n = arg[1] if arg[0] == 'n' else (2 ** arg[1] + arg[2])
    v += float(Fraction(*c)) * math.log(n)
  return v


def x_of(kk):
  return 0.5 * (math.log(kk[1]) - math.log(kk[2])) if kk[0] == 'rat' else 0.5 * kk[1] * math.log(2.0)


def tanh_of(t):
  if t[0] == 'rat':
    return float(Fraction(*t[1]))
  m = t[1]
  return float(Fraction(2 ** m - 1, 2 ** m + 1)) if m >= 0 else float(Fraction(1 - 2 ** (-m), 1 + 2 ** (-m)))


def inv_softplus(y):
  return y + math.log(-math.expm1(-y)) if y < 30 else y


def distribution_checks(ctx, states, r):
  import jax
  jax.config.update('jax_enable_x64', True)
  import jax.numpy as jnp
  from brax.training import distribution
  groups = {}
  for s in states:
    p = s['pt']
    groups.setdefault((len(p['dims']), p['minstd'], p['varscale']), []).append(s)
  nskip = 0
  big = 0
  for (E, ms, vs), ss in sorted(groups.items()):
    min_std, var_scale = float(Fraction(*ms)), float(Fraction(*vs))
    dist = distribution.NormalTanhDistribution(event_size=E, min_std=min_std, var_scale=var_scale)
    rows = []
    for s in ss:
      dims = s['pt']['dims']
      sig = [float(Fraction(*d['sig'])) for d in dims]
      if any(sg / var_scale - min_std <= 1e-9 for sg in sig):   # this sigma is below the floor: not reachable
        nskip += 1
        continue
      x = [x_of(d['kk']) for d in dims]
      z = [float(Fraction(*d['z'])) for d in dims]
      loc = [xi - sg * zi for xi, sg, zi in zip(x, sig, z)]
      raw = [inv_softplus(sg / var_scale - min_std) for sg in sig]
      rows.append((s, np.array(loc + raw), np.array(x), np.array(sig)))
    if not rows:
      continue
    # batch shapes: [B, E] and, when possible, [2, B/2, E]
    P = np.stack([r_[1] for r_ in rows])
    X = np.stack([r_[2] for r_ in rows])
    shapes = [None]
    if len(rows) % 2 == 0 and len(rows) >= 4:
      shapes.append((2, len(rows) // 2))
    for shp in shapes:
      Pb = P if shp is None else P.reshape(shp + (2 * E,))
      Xb = X if shp is None else X.reshape(shp + (E,))
      lp = np.asarray(dist.log_prob(jnp.asarray(Pb), jnp.asarray(Xb))).reshape(-1)
      post = np.asarray(dist.postprocess(jnp.asarray(Xb))).reshape(-1, E)
      fl = np.asarray(distribution.TanhBijector().forward_log_det_jacobian(jnp.asarray(Xb))).reshape(-1, E)
      inv = np.asarray(dist.inverse_postprocess(dist.postprocess(jnp.asarray(Xb)))).reshape(-1, E)
      Pm = np.concatenate([X, P[:, E:]], axis=1)
      mode = np.asarray(dist.mode(jnp.asarray(Pm if shp is None else Pm.reshape(shp + (2 * E,))))).reshape(-1, E)
      scale = np.asarray(dist.create_dist(jnp.asarray(Pb)).scale).reshape(-1, E)
      key = jax.random.PRNGKey(r.randint(0, 10**6))
      ent = np.asarray(dist.entropy(jnp.asarray(Pb), key)).reshape(-1)
      raw_s = np.asarray(dist.sample_no_postprocessing(jnp.asarray(Pb), key)).reshape(-1, E)
      fl_s = np.asarray(distribution.TanhBijector().forward_log_det_jacobian(jnp.asarray(raw_s)))
      for i, (s, p, x, sig) in enumerate(rows):
        out = s['out']
        want_lp = eval_form(out['logprob'])
        want_post = [tanh_of(t) for t in out['post']]
        want_fl = [eval_form(f) for f in out['fldj']]
        want_ent = eval_form(out['entropy_normal']) + float(np.sum(fl_s[i]))
        case = {'event_size': E, 'min_std': min_std, 'var_scale': var_scale, 'parameters': p.tolist(), 'pre_squash': x.tolist(),
                'batch_shape': shp, 'point': s['pt']}
        bad = []
        if abs(lp[i] - want_lp) > 1e-10 * (1 + abs(want_lp)):
          bad.append(f'log_prob {lp[i]!r} != {want_lp!r}')
        if np.max(np.abs(fl[i] - np.array(want_fl))) > 1e-10 * (1 + np.max(np.abs(want_fl))) or not np.all(np.isfinite(fl[i])):
          bad.append(f'forward_log_det_jacobian {fl[i].tolist()} != {want_fl}')
        if np.max(np.abs(post[i] - np.array(want_post))) > 1e-12 or np.max(np.abs(post[i])) > 1:
          bad.append(f'postprocess {post[i].tolist()} != {want_post}')
        if np.max(np.abs(mode[i] - np.array(want_post))) > 1e-12:
          bad.append(f'mode {mode[i].tolist()} != tanh(loc) {want_post}')
        if np.max(np.abs(scale[i] - sig)) > 1e-9 * np.max(sig):
          bad.append(f'scale {scale[i].tolist()} != {sig.tolist()}')
        small = np.abs(x) < 6
        if np.any(small) and np.max(np.abs(inv[i][small] - x[small])) > 1e-6:
          bad.append(f'inverse_postprocess(postprocess(x)) {inv[i].tolist()} != {x.tolist()}')
        if abs(ent[i] - want_ent) > 1e-9 * (1 + abs(want_ent)):
          bad.append(f'entropy {ent[i]!r} != {want_ent!r}')
        if np.max(np.abs(x)) > 20:
          big += 1
        ctx.case(key=(json.dumps(core._jsonable(s['pt']), sort_keys=True), shp), nontrivial=E > 1 or abs(x[0]) > 0,
                 sample={**case, 'expected_log_prob': want_lp} if len(ctx.samples) < 3 and E > 1 and shp is None else None)
        ctx.traces += 1
        if bad:
          ctx.violation('tanh-normal distribution differs from the exact specification: ' + '; '.join(bad[:3]), case,
                        {'call': 'NormalTanhDistribution', 'predicate': 'value'})
    sampling_checks(ctx, dist, E, min_std, var_scale, r)
  ctx.extra.update(points_with_large_presquash=big, unreachable_sigma_skipped=nskip)


def sampling_checks(ctx, dist, E, min_std, var_scale, r):
  import jax
  import jax.numpy as jnp
  for _ in range(3):
    loc = np.array([r.uniform(-10, 10) for _ in range(E)])
    raw = np.array([r.uniform(-20, 20) for _ in range(E)])
    params = jnp.asarray(np.concatenate([loc, raw]))
    k1, k2 = jax.random.PRNGKey(r.randint(0, 10**6)), jax.random.PRNGKey(r.randint(10**6, 2 * 10**6))
    d = dist.create_dist(params)
    scale = np.asarray(d.scale)
    floor = min_std * var_scale
    s1 = np.asarray(dist.sample(params, k1))
    s1b = np.asarray(dist.sample(params, k1))
    s2 = np.asarray(dist.sample(params, k2))
    raw1 = np.asarray(dist.sample_no_postprocessing(params, k1))
    case = {'event_size': E, 'min_std': min_std, 'var_scale': var_scale, 'parameters': np.asarray(params).tolist()}
    bad = []
    if np.any(scale < floor * (1 - 1e-12)):
      bad.append(f'scale {scale.tolist()} below the configured minimum {floor}')
    want_scale = (np.logaddexp(0, raw) + min_std) * var_scale
    if np.max(np.abs(scale - want_scale)) > 1e-9 * np.max(want_scale):
      bad.append(f'scale {scale.tolist()} != (softplus + min_std) * var_scale {want_scale.tolist()}')
    if np.max(np.abs(s1)) > 1 or np.max(np.abs(np.asarray(dist.mode(params)))) > 1:
      bad.append('sample / mode outside [-1, 1]')
    if not np.array_equal(s1, s1b):
      bad.append('sample is not a deterministic function of the key')
    if np.array_equal(s1, s2) and np.max(np.abs(s1)) < 1:
      bad.append('different keys gave the same sample')
    # reparameterisation: same key, other parameters -> same standard-normal draw
    eps = (raw1 - loc) / scale
    loc2, raw2 = loc * 0.5 + 1.0, raw * 0.25
    p2 = jnp.asarray(np.concatenate([loc2, raw2]))
    sc2 = np.asarray(dist.create_dist(p2).scale)
    r2 = np.asarray(dist.sample_no_postprocessing(p2, k1))
    if np.max(np.abs(r2 - (loc2 + sc2 * eps))) > 1e-9 * (1 + np.max(np.abs(r2))):
      bad.append(f'sampling is not reparameterised: {r2.tolist()} != loc + scale*eps {(loc2 + sc2 * eps).tolist()}')
    jac = np.asarray(jax.jacfwd(lambda p: dist.sample_no_postprocessing(p, k1))(params))
    if np.max(np.abs(np.diag(jac[:, :E]) - 1.0)) > 1e-9:
      bad.append(f'd sample / d loc = {np.diag(jac[:, :E]).tolist()}, expected 1 (pathwise derivative)')
    ctx.case(key=('sampling', E, min_std, var_scale, tuple(loc)), nontrivial=True)
    if bad:
      ctx.violation('sampling: ' + '; '.join(bad[:3]), case, {'call': 'NormalTanhDistribution', 'predicate': 'sampling'})


class Interner:

  def __init__(self):
    self.ids = {}

  def __call__(self, tree):
    import jax
    leaves = jax.tree_util.tree_leaves(tree)
    b = b'|'.join(np.asarray(x).tobytes() + str(np.asarray(x).shape).encode() for x in leaves)
    return self.ids.setdefault(b, len(self.ids) + 1)


def inference_traces(ctx, r):
  import jax
  import jax.numpy as jnp
  from brax.training import distribution, networks
  from brax.training.acme import running_statistics
  from brax.training.agents.ppo import networks as ppo_networks
  traces = []
  for t in range(12 if ctx.quick else 120):
    obs_size, act_size = r.randint(2, 6), r.randint(1, 6)
    intern = Interner()
    evs = []

    def rec_pre(obs, stats):
      out = running_statistics.normalize(obs, stats)
      evs.append({'ev': 'preprocess', 'obs': intern(obs), 'stats': intern(stats), 'out': intern(out)})
      return out

    # every other trace uses dictionary observations with DIFFERENT entries (and widths) for policy and critic
    dict_obs = t % 2 == 1
    priv = obs_size + 2
    size_arg = {'state': obs_size, 'privileged_state': priv} if dict_obs else obs_size
    keys_kw = dict(policy_obs_key='state', value_obs_key='privileged_state') if dict_obs else {}
    nets = ppo_networks.make_ppo_networks(size_arg, act_size, preprocess_observations_fn=rec_pre,
                                          policy_hidden_layer_sizes=(8,), value_hidden_layer_sizes=(8,), **keys_kw)
    from flax import linen
    ref_net = networks.make_policy_network(nets.parametric_action_distribution.param_size, size_arg,
                                           preprocess_observations_fn=running_statistics.normalize,
                                           hidden_layer_sizes=(8,), activation=linen.swish, obs_key='state')
    real_apply = nets.policy_network.apply
    real_dist = nets.parametric_action_distribution

    def rec_apply(stats, params, obs):
      evs.append({'ev': 'apply_call', 'stats': intern(stats), 'params': intern(params), 'obs': intern(obs)})
      out = real_apply(stats, params, obs)
      try:     # the policy must be the MLP applied to the normalised POLICY entry of the observation
        ref = intern(ref_net.apply(stats, params, obs))
      except Exception:  # pylint: disable=broad-except
        ref = -2
      evs.append({'ev': 'apply_ret', 'out': intern(out), 'ref': ref})
      return out

    class RecDist:
      param_size = real_dist.param_size

      def sample_no_postprocessing(self, logits, key):
        out = real_dist.sample_no_postprocessing(logits, key)
        evs.append({'ev': 'sample_no_post', 'logits': intern(logits), 'key': intern(key), 'out': intern(out)})
        return out

      def log_prob(self, logits, actions):
        out = real_dist.log_prob(logits, actions)
        evs.append({'ev': 'log_prob', 'logits': intern(logits), 'actions': intern(actions), 'out': intern(out)})
        return out

      def postprocess(self, x):
        out = real_dist.postprocess(x)
        evs.append({'ev': 'postprocess', 'x': intern(x), 'out': intern(out)})
        return out

      def mode(self, logits):
        out = real_dist.mode(logits)
        evs.append({'ev': 'mode', 'logits': intern(logits), 'out': intern(out)})
        return out

      def sample(self, logits, key):
        return self.postprocess(self.sample_no_postprocessing(logits, key))

      def __getattr__(self, name):
        # any other member of the real distribution is available too; using it is recorded (the flow has no place for it)
        attr = getattr(real_dist, name)
        if not callable(attr):
          return attr

        def call(*a, **kw):
          evs.append({'ev': 'other', 'member': name})
          return attr(*a, **kw)
        return call

    rec_nets = ppo_networks.PPONetworks(
        policy_network=networks.FeedForwardNetwork(init=nets.policy_network.init, apply=rec_apply),
        value_network=nets.value_network, parametric_action_distribution=RecDist())
    make_policy = ppo_networks.make_inference_fn(rec_nets)
    pparams = nets.policy_network.init(jax.random.PRNGKey(r.randint(0, 9999)))
    for call in range(4):
      batch = r.choice([(), (3,), (2, 2)])
      rnd = lambda *shape: np.random.RandomState(r.randint(0, 10**6)).randn(*shape).astype(np.float32)
      if dict_obs:
        obs = {'state': jnp.asarray(rnd(*batch, obs_size)), 'privileged_state': jnp.asarray(rnd(*batch, priv))}
        stats = running_statistics.NestedMeanStd(
            mean={'state': jnp.asarray(rnd(obs_size)), 'privileged_state': jnp.asarray(rnd(priv))},
            std={'state': jnp.asarray(0.5 + np.abs(rnd(obs_size))), 'privileged_state': jnp.asarray(0.5 + np.abs(rnd(priv)))})
      else:
        obs = jnp.asarray(rnd(*batch, obs_size))
        stats = running_statistics.NestedMeanStd(mean=jnp.asarray(rnd(obs_size)), std=jnp.asarray(0.5 + np.abs(rnd(obs_size))))
      key = jax.random.PRNGKey(r.randint(0, 10**6))
      det = call % 2
      # "deterministic" may be spelled as any truthy value (a numpy bool, the integer 1, ...)
      det_arg = [False, True, False, np.bool_(True), False, 1][(call + 2 * t) % 6] if det else False
      det_arg = det_arg if det_arg is not False or not det else True
      evs.append({'ev': 'call', 'obs': intern(obs), 'key': intern(key), 'det': det, 'stats': intern(stats),
                  'params': intern(pparams)})
      action, extras = make_policy((stats, pparams), deterministic=det_arg)(obs, key)
      e = {'ev': 'return', 'action': intern(action), 'nextras': len(extras), 'log_prob': -1, 'raw_action': -1}
      if 'log_prob' in extras:
        e['log_prob'] = intern(extras['log_prob'])
      if 'raw_action' in extras:
        e['raw_action'] = intern(extras['raw_action'])
      evs.append(e)
      if np.max(np.abs(np.asarray(action))) > 1:
        evs.append({'ev': 'action_out_of_range'})
    # uniform record shape for TLC
    keys = ['ev', 'obs', 'key', 'det', 'stats', 'params', 'out', 'logits', 'actions', 'x', 'action', 'nextras',
            'log_prob', 'raw_action', 'ref']
    traces.append([{k: e.get(k, -1) for k in keys} for e in evs])
  tf = os.path.join(tlc.WORK, 'c20-flow.json')
  with open(tf, 'w') as f:
    json.dump(traces, f)
  cfg = os.path.join(tlc.WORK, 'c20-flow.cfg')
  tlc.write_cfg(cfg, init='TraceInit', next_='TraceNext', constraints=['Progress'], postcondition='AllAccepted')
  res = tlc.run('InferenceFlow', cfg, name='c20-flow', workers=1, env={'TRACE_FILE': tf})
  ctx.add_tlc(res, 'InferenceFlow.tla')
  rejected = tlc.parse_rejects(res, 'c20-flow')
  for t, evs in enumerate(traces):
    ctx.traces += 1
    ctx.case(key=('flow', t), nontrivial=True, sample={'recorded_calls': evs[:7]} if t == 0 else None)
    if (t + 1) in rejected:
      at = rejected[t + 1]
      ctx.violation(f'PPO inference dataflow rejected by InferenceFlow at event {at}: {evs[at - 1] if 0 < at <= len(evs) else None} '
                    f'(previous {evs[at - 2] if at >= 2 else None})', {'events': evs, 'rejected_at': at},
                    {'call': 'make_inference_fn', 'predicate': 'dataflow'})


def run(ctx):
  r = core.rng(ctx)
  ctx.rule = ('TanhNormal.tla: points x = 1/2 ln k (k small rationals and 2^m, |m| <= 115, so |x| <= 40), z and sigma '
              'rational, event sizes 1-6, min_std and var_scale dyadic; TLC checks exp(fldj) = 1 - tanh^2 exactly; every '
              'state replayed (float64): log_prob, log-derivative, postprocess, mode, scale, entropy, inverse, in '
              '[B,E] and [2,B/2,E] batches; sampling determinism / reparameterisation / floor on random parameters. '
              'InferenceFlow.tla validates recorded call sequences of make_inference_fn. non-trivial = x != 0 or E > 1.')
  ctx.assumptions = ['symbolic forms evaluated with math.log on Python integers (exact arguments)',
                     'the raw scale parameter is obtained by inverse softplus, the realised scale is compared at 1e-9',
                     'the step from exp(fldj) = 1 - tanh^2 to "the squashed density integrates to one" is analytic and '
                     'outside TLC']
  os.makedirs(tlc.WORK, exist_ok=True)
  cfg = os.path.join(tlc.WORK, 'c20.cfg')
  tlc.write_cfg(cfg, constants={'NPoints': 300 if ctx.quick else 6000, 'MaxEvent': 6, 'SeedBase': core.seed_base(ctx, 20)},
                invariants=['TanhDerivativeIdentity', 'SquashedInRange'])
  dump = os.path.join(tlc.WORK, 'c20')
  res = tlc.run('TanhNormal', cfg, name='c20', dump=dump, expect_ok=True, coverage=True)
  tlc.require_coverage(res, ['Compute'], 'c20')
  ctx.add_tlc(res, 'TanhNormal.tla')
  distribution_checks(ctx, list(done_states(dump + '.dump')), r)
  inference_traces(ctx, r)
  ctx.exhaustive = False


def replay(ctx, path):
  with open(path) as f:
    body = json.load(f)
  print(json.dumps(body, indent=1)[:6000])
  ctx.seed, ctx.tier = body.get('seed', ctx.seed), body.get('tier', ctx.tier)
  ctx.quick = ctx.tier == 'quick'
  run(ctx)
