"""C07 — batching and compilation are transparent; batch members are independent.

wrappers (exact): batches whose members all follow different schedules (one member possibly poisoned with NaN actions),
    under training.wrap, envs.create order and DomainRandomizationVmapWrapper, validated member by member against the
    single-member specification EpisodeWrappers.tla.
physics (relational): jit(vmap(init+step))(batch)[m] vs the member alone, and member m across two batches that differ in
    the other members, for ModelSpace models with and without ground contact, 3 pipelines; bundled envs likewise."""
from __future__ import annotations

import importlib
import json
import os

import numpy as np

from harness import core, par, phys, render, shim, tlaval, tlc
from harness.drivers import c15

EPS = 1000   # 1e-9 relative


def quant(x):
  if not np.isfinite(x):
    return 2**30
  return int(max(0, min(2**30, round(x / 1e-12))))


def rel(a, b):
  a, b = np.asarray(a, float), np.asarray(b, float)
  if a.size == 0:
    return 0.0
  if not (np.all(np.isfinite(a)) and np.all(np.isfinite(b))):
    return 0.0 if np.array_equal(np.isnan(a), np.isnan(b)) and np.allclose(np.nan_to_num(a), np.nan_to_num(b)) else float('inf')
  return float(np.max(np.abs(a - b)) / (1 + max(np.max(np.abs(a)), np.max(np.abs(b)))))


def batch_case(case):
  """Worker: batched vs solo vs perturbed-batch for one model/pipeline."""
  import jax
  import jax.numpy as jp
  from brax.io import mjcf
  pipe = importlib.import_module(f'brax.{case["pipe"]}.pipeline')
  try:
    sys = mjcf.loads(case['xml'])
    Q, QD, A = (jp.asarray(np.array(case[k], float)) for k in ('Q', 'QD', 'A'))
    Q2, QD2, A2 = (jp.asarray(np.array(case[k], float)) for k in ('Q2', 'QD2', 'A2'))
    steps = case['steps']

    def f(q, qd, a):
      st = pipe.init(sys, q, qd)
      for _ in range(steps):
        st = pipe.step(sys, st, a)
      return st.q, st.qd, st.x.pos, st.x.rot, st.xd.vel

    fb = jax.jit(jax.vmap(f))
    fs = jax.jit(f)
    out_b = [np.asarray(x) for x in fb(Q, QD, A)]
    out_b2 = [np.asarray(x) for x in fb(Q2, QD2, A2)]
    B = Q.shape[0]
    pw, ni = 0.0, 0.0
    for m in range(B):
      solo = [np.asarray(x) for x in fs(Q[m], QD[m], A[m])]
      pw = max(pw, max(rel(s, b[m]) for s, b in zip(solo, out_b)))
    keep = case['keep']            # members identical in both batches
    for m in keep:
      ni = max(ni, max(rel(a[m], b[m]) for a, b in zip(out_b, out_b2)))
    return {'pointwise': pw, 'noninterference': ni, 'finite': bool(all(np.all(np.isfinite(x)) for x in out_b))}
  except Exception as e:  # pylint: disable=broad-except
    return {'brax_error': f'{type(e).__name__}: {str(e)[:300]}'}


def env_case(case):
  """Worker: bundled env reset/step under vmap vs alone."""
  import jax
  import jax.numpy as jp
  from brax import envs
  try:
    env = envs.get_environment(case['env'], backend=case['backend'])
    B = case['batch']
    keys = jax.random.split(jax.random.PRNGKey(case['seed']), B)
    rs = np.random.RandomState(case['seed'])
    acts = jp.asarray(rs.uniform(-1, 1, size=(case['steps'], B, env.action_size)).astype(np.float64 if jax.config.jax_enable_x64 else np.float32))

    def roll(key, a):
      st = env.reset(key)
      def body(s, x):
        s = env.step(s, x)
        return s, (s.obs, s.reward, s.done)
      st, tr = jax.lax.scan(body, st, a)
      return tr

    rb = jax.jit(jax.vmap(roll, in_axes=(0, 1)))(keys, acts)
    rsolo = jax.jit(roll)
    pw = 0.0
    for m in range(min(B, 3)):
      so = rsolo(keys[m], acts[:, m])
      pw = max(pw, max(rel(np.asarray(s), np.asarray(b)[m]) for s, b in zip(so, rb)))
    return {'pointwise': pw}
  except Exception as e:  # pylint: disable=broad-except
    return {'brax_error': f'{type(e).__name__}: {str(e)[:300]}'}


def wrapper_part(ctx, r):
  """Exact half: member-by-member validation against EpisodeWrappers.tla, incl. a NaN-poisoned neighbour."""
  import jax
  import jax.numpy as jp
  q = ctx.quick
  inv = [x for x in c15.INVS if x != 'EpisodeReplays']
  n = 0
  for i in range(5 if q else 44):
    L, R = r.randint(3, 12), r.randint(1, 3)
    sl = r.randint(8, 30)
    B = r.randint(2, 8)
    scheds = [[1 if r.random() < r.choice([0.05, 0.25]) else 0 for _ in range(sl)] for _ in range(B)]
    if i % 5 == 4:
      # a batch of ONE, and a batch whose members are all the same: "the member alone" is itself a batch, and whatever
      # a wrapper derives from the batch as a whole coincides with the member there
      R = r.randint(2, 3)
      scheds = [[1 if r.random() < 0.3 else 0 for _ in range(sl)]] * r.choice([1, 1, 3])
      B = len(scheds)
    order = r.choice(['wrap', 'create', 'randomized'])
    gains = [r.randint(1, 4) for _ in range(B)] if order == 'randomized' else None
    tr = c15.run_config(ctx, r, L, R, order, scheds, r.randint(10, 40), use_eval=False, random_actions=True, gains=gains,
                        label='c07-batch')
    c15.validate(ctx, tr, f'c07-wrap-{i}', invs=inv)
    n += len(tr)
  # uncompiled execution of the wrapper stack (cheap on the scripted environment): eager = eager again = compiled, the input
  # state is not modified, and the eager history is a behaviour of the specification
  for i in range(1 if q else 6):
    L, R, B = r.randint(3, 6), r.randint(1, 2), r.randint(2, 3)
    scheds = [[1 if r.random() < 0.2 else 0 for _ in range(12)] for _ in range(B)]
    tr = c15.run_config(ctx, r, L, R, r.choice(['wrap', 'create']), scheds, 2 * L + 2, use_eval=False, random_actions=True,
                        label='c07-eager', eager=True)
    if tr:
      c15.validate(ctx, tr, f'c07-eager-{i}', invs=inv)
      n += len(tr)
  # poisoned neighbour: member 0 receives NaN actions from some step on; everyone else must not notice
  for i in range(2 if q else 12):
    L, R, B = r.randint(4, 9), r.randint(1, 2), r.randint(3, 6)
    scheds = [[1 if r.random() < 0.15 else 0 for _ in range(20)] for _ in range(B)]
    tr = run_poisoned(ctx, r, L, R, scheds, 18)
    c15.validate(ctx, tr[1:], f'c07-poison-{i}', invs=inv)
    n += len(tr) - 1
  ctx.extra['wrapper_member_traces'] = n


def run_poisoned(ctx, r, L, R, scheds, nsteps):
  import jax
  import jax.numpy as jp
  from brax.envs.wrappers import training
  Scripted, _ = c15.make_env_cls()
  B = len(scheds)
  T = max(len(s) for s in scheds)
  table = np.zeros((B, T), np.int32)
  for i, s in enumerate(scheds):
    table[i, :len(s)] = s
  env = training.wrap(Scripted(table), episode_length=L, action_repeat=R)
  keys = jp.asarray(np.stack([np.full(B, 12345, np.uint32), np.arange(B, dtype=np.uint32)], 1))
  reset, step = jax.jit(env.reset), jax.jit(env.step)
  state = reset(keys)
  rec = [c15._snapshot(state)]
  k0 = r.randint(2, nsteps // 2)
  rr = np.random.RandomState(r.randint(0, 2**31 - 1))
  for t in range(nsteps):
    a = rr.randint(-1, 3, size=(B, 1)).astype(np.float32)
    anan = a.copy()
    if t >= k0:
      anan[0, 0] = np.nan if t % 2 else np.inf
    state = step(state, jp.asarray(anan))
    snap = c15._snapshot(state, a)
    for k in ('obs', 'acc', 'fobs'):            # keep member 0 (garbage) out of the integer conversion
      snap[k] = np.nan_to_num(snap[k], nan=0.0, posinf=0.0, neginf=0.0)
    rec.append(snap)
  traces = []
  for m in range(B):
    hdr = {'L': L, 'R': R, 'sched': [int(x) for x in scheds[m]], 'gain': 1, 'eval': 0, 'order': 'wrap', 'label': 'poisoned-neighbour', 'noep': 0}
    traces.append(c15._events_from_run(hdr, rec, m, B))
  return traces


def run(ctx):
  shim.install()
  q = ctx.quick
  r = core.rng(ctx, 7)
  from harness.drivers import c01
  ctx.rule = ('wrappers: batches of 2-8 members with different termination schedules, random actions, 10-40 steps, three wrapper '
              'stacks incl. per-member randomised systems, and batches with a NaN-poisoned neighbour; every member validated '
              'against the single-member spec. physics: ModelSpace models (with / without ground contact) x 3 pipelines x '
              'batches of 2-8 with distinct per-member (q, qd, act): pointwise and non-interference residuals <= 1e-9; bundled '
              'envs reset+step under vmap vs alone. non-trivial = every batched case.')
  ctx.assumptions = ['vmap vs solo are different XLA programs: tolerance 1e-9 relative in float64 (1e-5 for the generalized pipeline with active contacts, whose iterative solver amplifies round-off, and for the float32 bundled envs)', 'contact scenes are shallow (lowest geom between 5 mm inside and 5 cm above the plane)',
                     'jit-vs-eager is compared for the wrapper stacks (scripted environment) only: an eager physics step costs seconds',
                     'members whose own state is non-finite are excluded; their neighbours are not']
  wrapper_part(ctx, r)
  os.makedirs(tlc.WORK, exist_ok=True)
  cases = []
  def place_on_ground(xml, m, qv):
    """Shift the free roots so that the lowest geom point is between 5 mm inside and 5 cm above the plane z = 0."""
    import mujoco
    mj = mujoco.MjModel.from_xml_string(xml)
    d = mujoco.MjData(mj)
    d.qpos[:] = qv
    mujoco.mj_forward(mj, d)
    low = min((d.geom_xpos[g][2] - mj.geom_rbound[g]) for g in range(mj.ngeom) if mj.geom_type[g] != 0)
    dz = r.uniform(-0.005, 0.05) - low
    qv = list(qv)
    qi = 0
    for l in m['links']:
      if l['root'] == 'free':
        qv[qi + 2] += dz
        qi += 7
      else:
        qi += len(l['stack'])
    return qv

  models = [c['model'] for c in c01.relational_cases(ctx, 'c07-models', 3, 4 if q else 100, seed_off=71)]
  fmodels = [c['model'] for c in c01.relational_cases(ctx, 'c07-free', 3, 3 if q else 60, cls='freeroot', seed_off=72)]
  for m, contact in [(m, False) for m in models] + [(m, True) for m in fmodels if any(l.get('geom') for l in m['links'])]:
      if contact:
        gx = {i: 'contype="1" conaffinity="0"' for i, l in enumerate(m['links'], 1) if l.get('geom')}
        plane = '    <geom name="ground" type="plane" size="0 0 1" pos="0 0 0" contype="0" conaffinity="1"/>\n'
        xml = render.render(m, collide=True, geom_extra=gx).replace('  <worldbody>\n', '  <worldbody>\n' + plane)
      else:
        xml = render.render(m)
      B = r.randint(2, 8)
      sts = [phys.float_state(m, r, qscale=1.0, qdscale=1.0) for _ in range(B)]
      keep = sorted(r.sample(range(B), max(1, B // 2)))
      sts2 = [sts[i] if i in keep else phys.float_state(m, r) for i in range(B)]
      if contact:     # realistic contact: touching or shallow penetration, never decimetres deep
        sts = [(place_on_ground(xml, m, s_[0]), s_[1]) for s_ in sts]
        sts2 = [sts[i] if i in keep else (place_on_ground(xml, m, sts2[i][0]), sts2[i][1]) for i in range(B)]
      for pipe in ('generalized', 'spring', 'positional'):
        cases.append({'xml': xml, 'pipe': pipe, 'steps': 2, 'keep': keep, 'contact': contact,
                      'Q': [s[0] for s in sts], 'QD': [s[1] for s in sts], 'A': [[] for _ in sts],
                      'Q2': [s[0] for s in sts2], 'QD2': [s[1] for s in sts2], 'A2': [[] for _ in sts2]})
  traces, info = [], []
  for case, out in par.run('harness.drivers.c07', 'batch_case', cases):
    if 'brax_error' in out:
      ctx.violation(f'{case["pipe"]} raised under vmap: {out["brax_error"]}', {'xml': case['xml'], 'pipe': case['pipe']},
                    {'call': case['pipe'], 'predicate': 'raised'})
      continue
    # the generalized pipeline resolves active contacts with an iterative line-search solver: two different XLA programs
    # (batched / alone) legitimately differ by amplified round-off there, so that combination is compared at 1e-5
    soft = 1e-4 if (case['pipe'] == 'generalized' and case['contact']) else 1.0
    traces.append([{'kind': 'pointwise', 'res': quant(out['pointwise'] * soft), 'excluded': 0},
                   {'kind': 'noninterference', 'res': quant(out['noninterference'] * soft), 'excluded': 0}])
    info.append((case, out))
  ecases = [{'env': e, 'backend': b, 'batch': 4, 'steps': 20, 'seed': ctx.seed + 3}
            for e, b in ([('inverted_pendulum', 'generalized'), ('reacher', 'positional')] if q else
                         [('inverted_pendulum', 'generalized'), ('reacher', 'positional'), ('hopper', 'spring'),
                          ('halfcheetah', 'generalized'), ('ant', 'positional'), ('walker2d', 'spring')])]
  # float64: in float32 the 1e-7 round-off difference between the batched and the solo XLA program is amplified by the contact
  # dynamics of a 20-step rollout to 1e-2 (observed on halfcheetah/generalized and ant/positional in the first thorough sweep),
  # which says nothing about batching; in float64 the same rollouts agree to 1e-11
  for case, out in par.run('harness.drivers.c07', 'env_case', ecases, x64=True):
    if 'brax_error' in out:
      ctx.violation(f'{case["env"]}/{case["backend"]} raised under vmap: {out["brax_error"]}', case, {'call': 'env', 'predicate': 'raised'})
      continue
    traces.append([{'kind': 'pointwise', 'res': quant(out['pointwise'] * (1e-4 if case['backend'] == 'generalized' else 1.0)), 'excluded': 0}])
    info.append((case, out))
  tf = os.path.join(tlc.WORK, 'c07.json')
  with open(tf, 'w') as f:
    json.dump(traces, f)
  cfg = os.path.join(tlc.WORK, 'c07.cfg')
  tlc.write_cfg(cfg, init='TraceInit', next_='TraceNext', constants={'Eps': EPS}, constraints=['Progress'], postcondition='AllAccepted')
  res = tlc.run('Batch', cfg, name='c07', workers=1, env={'TRACE_FILE': tf})
  ctx.add_tlc(res, 'Batch.tla')
  rejected = tlc.parse_rejects(res, 'c07')
  for i, (evs, (case, out)) in enumerate(zip(traces, info)):
    ctx.traces += 1
    ctx.case(key=(case.get('xml') or case['env'], case.get('pipe') or case['backend'], case.get('contact')), nontrivial=True,
             sample={'pipeline': case.get('pipe') or case['backend'], 'model': (case.get('xml') or case['env'])[:1500],
                     'residuals': out} if len(ctx.samples) < 5 and i % 4 == 0 else None)
    if (i + 1) in rejected:
      at = rejected[i + 1]
      bad = evs[at - 1]
      ctx.violation(f'{case.get("pipe") or case["env"]}: {bad["kind"]} residual {bad["res"]}e-12 (batch member differs from the '
                    f'member alone / depends on its neighbours): {out}', {k: v for k, v in case.items()},
                    {'call': case.get('pipe') or 'env', 'predicate': bad['kind']})
  ctx.extra.update(physics_batches=len(cases), env_batches=len(ecases))
  ctx.exhaustive = False


def replay(ctx, path):
  with open(path) as f:
    body = json.load(f)
  print(json.dumps(body, indent=1)[:6000])
  ctx.seed, ctx.tier = body.get('seed', ctx.seed), body.get('tier', ctx.tier)
  ctx.quick = ctx.tier == 'quick'
  run(ctx)
