"""C10 — contact geometry of primitive pairs.  Contact.tla computes closed-form distances (rational, or squared forms)
for plane/sphere/capsule scenes; contact.get(sys, x) must report them for every candidate contact."""
from __future__ import annotations

import json
import math
import os

import numpy as np

from harness import core, par, render, tlaval, tlc
from harness.drivers.c01 import done_states


def scene_xml(sc, template=False, vector=False):
  """`vector`: per-geom elasticities as ONE numeric vector in geom-id order (ground first) instead of a tuple of overrides."""
  body, tup, names = [], [], []
  evec = [render.fl(sc['pelast'])]
  gi = 0
  for i, l in enumerate(sc['links'], 1):
    body.append(f'    <body name="L{i}" pos="{render.vec(l["pos"])}" quat="{render.vec(l["quat"])}">')
    body.append(f'      <freejoint name="J{i}_f"/>')
    for k, g in enumerate(l['geoms'], 1):
      gi += 1
      nm = f'G{i}_{k}'
      size = f'{render.fl(g["r"])!r}' if g['type'] == 'S' else f'{render.fl(g["r"])!r} {render.fl(g["hl"])!r}'
      body.append(f'      <geom name="{nm}" type="{"sphere" if g["type"] == "S" else "capsule"}" size="{size}" '
                  + ('pos="0 0 0" quat="1 0 0 0"' if template else f'pos="{render.vec(g["lpos"])}" quat="{render.vec(g["lquat"])}"') +
                  ' mass="1"/>')
      tup.append(f'      <element objtype="geom" objname="{nm}" prm="{render.fl(g["elast"])!r}"/>')
      evec.append(render.fl(g['elast']))
    body.append('    </body>')
  tup.append(f'      <element objtype="geom" objname="ground" prm="{render.fl(sc["pelast"])!r}"/>')
  custom = ('    <tuple name="elasticity">\n' + '\n'.join(tup) + '\n    </tuple>' if not vector else
            '    <numeric name="elasticity" data="' + ' '.join(repr(float(e)) for e in evec) + '"/>')
  return ('<mujoco>\n  <compiler angle="radian"/>\n  <custom>\n' + custom +
          '\n  </custom>\n  <worldbody>\n    <geom name="ground" type="plane" size="0 0 1" ' +
          f'pos="{render.vec(sc["plane"]["pos"])}" quat="{render.vec(sc["plane"]["quat"])}"/>\n' +
          '\n'.join(body) + '\n  </worldbody>\n</mujoco>\n')


def eval_case(case):
  import jax
  import jax.numpy as jp
  from brax import base, contact
  from brax.io import mjcf
  sc = case['scene']
  # every other scene is loaded from a template document and its geom offsets are then set on the System itself
  # (sys.replace, as domain randomisation does): contact.get must use the System's fields
  template = case.get('mode') == 'replace'
  xml = scene_xml(sc, template=template, vector=bool(case.get('elast_vector')))
  try:
    sys = mjcf.loads(xml)
    if template:
      gp = [render.fvec(sc['plane']['pos'])] + [render.fvec(g['lpos']) for l in sc['links'] for g in l['geoms']]
      gq = [render.fvec(sc['plane']['quat'])] + [render.fvec(g['lquat']) for l in sc['links'] for g in l['geoms']]
      sys = sys.replace(geom_pos=jp.asarray(gp), geom_quat=jp.asarray(gq))
  except Exception as e:
    return {'xml': xml, 'rows': [], 'brax_error': f'{type(e).__name__}: {str(e)[:300]}'}
  x = base.Transform(pos=jp.asarray([render.fvec(l['pos']) for l in sc['links']]),
                     rot=jp.asarray([render.fvec(l['quat']) for l in sc['links']]))
  try:
    c = jax.jit(contact.get)(sys, x)
  except Exception as e:
    return {'xml': xml, 'rows': [], 'brax_error': f'{type(e).__name__}: {str(e)[:300]}'}
  if c is None:
    return {'xml': xml, 'rows': []}
  rows = []
  g1, g2 = np.asarray(c.geom1), np.asarray(c.geom2)
  for r in range(len(np.asarray(c.dist))):
    rows.append({'geom1': int(g1[r]), 'geom2': int(g2[r]), 'dist': float(c.dist[r]),
                 'normal': np.asarray(c.frame[r][0]).tolist(), 'pos': np.asarray(c.pos[r]).tolist(),
                 'link1': int(c.link_idx[0][r]), 'link2': int(c.link_idx[1][r]), 'elasticity': float(c.elasticity[r])})
  return {'xml': xml, 'rows': rows}


def run(ctx):
  q = ctx.quick
  ctx.rule = ('TLC draws scenes (plane + 2-3 free links with 1-2 sphere/capsule geoms at rational local poses, rational link '
              'poses, per-geom elasticity), computes closed-form distances with the clamped closest-point case analysis; '
              'contact.get must explain EVERY reported row: dist (through the squared form), normal parallel to and '
              'oriented like p2-p1, owning links (world=-1), mean elasticity. non-trivial = a curved-curved pair.')
  ctx.assumptions = ['32-bit budget: at most one non-axis-permuting (/5) rotation per scene; capsule axes are otherwise '
                     'axis-aligned', 'boxes, meshes and convex pairs are outside the property', 'tolerance 5e-6 on distances and normals: the narrow phase itself (mujoco.mjx) regularises with 1e-6-scale epsilons; brax-level errors (geom pose, link attribution) are orders of magnitude larger',
                     'rows for geom pairs on the same body never appear (MuJoCo filters them)']
  os.makedirs(tlc.WORK, exist_ok=True)
  cfg = os.path.join(tlc.WORK, 'c10.cfg')
  tlc.write_cfg(cfg, constants={'NScenes': 60 if q else 1500, 'SeedBase': core.seed_base(ctx, 10)}, invariants=['Symmetric', 'NoFartherThanCentres'])
  dump = os.path.join(tlc.WORK, 'c10')
  res = tlc.run('Contact', cfg, name='c10', dump=dump, seed=ctx.seed + 16, expect_ok=True, coverage=True)
  tlc.require_coverage(res, ['Compute'], 'c10')
  ctx.add_tlc(res, 'Contact.tla')
  cases = [{'scene': s['scene'], 'out': s['out'], 'mode': 'replace' if i % 2 else 'xml', 'elast_vector': i % 4 >= 2}
           for i, s in enumerate(done_states(dump + '.dump'))]
  branches = {}
  nrows = 0
  pen = 0
  for case, r in par.run('harness.drivers.c10', 'eval_case', cases):
    out = case['out']
    ng = out['ngeom']
    if 'brax_error' in r:
      ctx.violation(f'contact.get raised: {r["brax_error"]}', {'xml': r['xml']}, {'call': 'contact.get', 'predicate': 'raised'})
      continue
    ctx.traces += 1
    curved = False
    used_plane = {}
    info = {'xml': r['xml']}
    for row in r['rows']:
      nrows += 1
      a, b = row['geom1'], row['geom2']        # geom ids: 0 = plane, k = k-th body geom
      n = np.array(row['normal'])
      bad = None
      if abs(np.linalg.norm(n) - 1) > 1e-6:
        bad = f'normal {n.tolist()} is not a unit vector'
      if a == 0 or b == 0:
        k = max(a, b)
        cands = [render.fl(p['dist']) for p in out['plane'][k - 1]]
        j = int(np.argmin([abs(row['dist'] - cd) for cd in cands]))
        if abs(row['dist'] - cands[j]) > 5e-6:
          bad = bad or f'plane contact dist {row["dist"]} not among the closed-form {cands}'
        used_plane.setdefault(k, []).append(j)
        pn = np.array(render.fvec(out['pnormal']))
        want_n = pn if a == 0 else -pn
        if np.max(np.abs(n - want_n)) > 1e-6:
          bad = bad or f'plane normal {n.tolist()} should be {want_n.tolist()} (from geom {a} to geom {b})'
        links = (-1, out['owner'][k - 1]) if a == 0 else (out['owner'][k - 1], -1)
        el = (render.fl(case['scene']['pelast']) + render.fl(out['elast'][k - 1])) / 2
      else:
        curved = True
        p = out['pair'][a - 1][b - 1]
        if p['kind'] == 'same-body':
          bad = bad or 'contact reported between two geoms of the same body'
          links, el = (row['link1'], row['link2']), row['elasticity']
        else:
          branches[p['branch']] = branches.get(p['branch'], 0) + 1
          d2, rsum = render.fl(p['d2']), render.fl(p['rsum'])
          want = math.sqrt(d2) - rsum
          if abs(row['dist'] - want) > 5e-6:   # mjx's narrow phase regularises with 1e-6-scale epsilons
            bad = bad or f'{p["kind"]} dist {row["dist"]} differs from the closed form {want} (branch {p["branch"]})'
          dirv = np.array(render.fvec(p['dir']))
          if np.linalg.norm(dirv) > 1e-6:
            if np.max(np.abs(n - dirv / np.linalg.norm(dirv))) > 5e-5:  # mjx normalises with a 1e-6-scale epsilon
              bad = bad or f'normal {n.tolist()} does not point from geom {a} to geom {b} ({(dirv / np.linalg.norm(dirv)).tolist()})'
          links = (out['owner'][a - 1], out['owner'][b - 1])
          el = (render.fl(out['elast'][a - 1]) + render.fl(out['elast'][b - 1])) / 2
      if (row['link1'], row['link2']) != tuple(links):
        bad = bad or f'contact attributed to links {(row["link1"], row["link2"])}, owners are {tuple(links)}'
      if abs(row['elasticity'] - el) > 1e-6:
        bad = bad or f'elasticity {row["elasticity"]} is not the mean {el} of the two geoms'
      if row['dist'] < 0:
        pen += 1
      if bad:
        ctx.violation(f'contact.get row (geom {a}, geom {b}): {bad}', {**info, 'row': row},
                      {'call': 'contact.get', 'predicate': 'row'})
        break
    for k, js in used_plane.items():   # a capsule's two end spheres must both be reported, once each
      if len(out['plane'][k - 1]) == 2 and sorted(js) != [0, 1] and \
          abs(render.fl(out['plane'][k - 1][0]['dist']) - render.fl(out['plane'][k - 1][1]['dist'])) > 1e-6:
        ctx.violation(f'plane-capsule contacts of geom {k} do not cover both end points: matched {js}', info,
                      {'call': 'contact.get', 'predicate': 'capsule_ends'})
    ctx.case(key=r['xml'], nontrivial=curved, sample={'xml': r['xml'], 'rows': r['rows'][:3]} if len(ctx.samples) < 3 and curved else None)
  ctx.extra.update(rows_checked=nrows, penetrating_rows=pen, segment_branches=branches)
  ctx.exhaustive = False


def replay(ctx, path):
  with open(path) as f:
    body = json.load(f)
  print(json.dumps(body, indent=1)[:6000])
  ctx.seed, ctx.tier = body.get('seed', ctx.seed), body.get('tier', ctx.tier)
  ctx.quick = ctx.tier == 'quick'
  run(ctx)
