"""Process-parallel evaluation of independent cases (each worker imports JAX once)."""
from __future__ import annotations

import importlib
import multiprocessing as mp
import os
import traceback


def _init(x64, env):
  os.environ.update(env)
  os.environ.setdefault('JAX_PLATFORMS', 'cpu')
  os.environ['XLA_FLAGS'] = os.environ.get('XLA_FLAGS', '') + ' --xla_cpu_multi_thread_eigen=false intra_op_parallelism_threads=1'
  os.environ.setdefault('OMP_NUM_THREADS', '1')
  if x64:
    import jax
    jax.config.update('jax_enable_x64', True)


def _call(args):
  modname, fname, case = args
  try:
    mod = importlib.import_module(modname)
    return ('ok', getattr(mod, fname)(case))
  except Exception:  # pylint: disable=broad-except
    return ('err', traceback.format_exc())


def run(modname, fname, cases, *, procs=None, x64=True, env=None, chunksize=1):
  """Applies modname.fname(case) to every case in worker processes; yields (case, result) in order.

  A worker exception is a machinery failure."""
  from harness import tlc
  procs = procs or min(14, max(1, (os.cpu_count() or 2) - 2))
  cases = list(cases)
  if not cases:
    return
  if procs == 1 or len(cases) == 1:
    _init(x64, env or {})
    for c in cases:
      st, r = _call((modname, fname, c))
      if st == 'err':
        raise tlc.MachineryError(f'worker failed in {modname}.{fname}:\n{r}')
      yield c, r
    return
  ctx = mp.get_context('spawn')
  with ctx.Pool(min(procs, len(cases)), initializer=_init, initargs=(x64, env or {})) as pool:
    for c, (st, r) in zip(cases, pool.imap(_call, [(modname, fname, c) for c in cases], chunksize=chunksize)):
      if st == 'err':
        raise tlc.MachineryError(f'worker failed in {modname}.{fname}:\n{r}')
      yield c, r
