"""Abstract model record (a ModelSpace.tla value parsed from a TLC dump) -> MJCF text, and numeric helpers.

Rationals are (n, d) pairs; decimal-exact members print exactly with repr(float(Fraction))."""
from __future__ import annotations

import math
from fractions import Fraction


def fr(r):
  return Fraction(r[0], r[1])


def fl(r):
  return float(fr(r))


def vec(v):
  return ' '.join(repr(fl(x)) for x in v)


def fvec(v):
  return [fl(x) for x in v]


def half_angle(c, s):
  """Joint angle whose half-angle has cosine c and sine s (Fractions or floats)."""
  return 2.0 * math.atan2(float(s), float(c))


GEOMS = {
    1: '<geom name="G{i}" type="sphere" size="0.1" {col}/>',
    2: '<geom name="G{i}" type="capsule" size="0.05 0.12" pos="0.02 0 0.05" quat="0.6 0.8 0 0" {col}/>',
    3: '<geom name="G{i}" type="box" size="0.08 0.06 0.05" pos="0 0.03 0" {col}/>',
}


def joint_xml(i, j, jt, anchor, *, limits=True, extra=''):
  a = f'<joint name="J{i}_{j}" type="{"hinge" if jt["kind"] == "H" else "slide"}" axis="{vec(jt["axis"])}" pos="{vec(anchor)}"'
  if limits and jt.get('limited'):
    a += f' limited="true" range="{fl(jt["lo"])!r} {fl(jt["hi"])!r}"'
  else:
    a += ' limited="false"'
  for k in ('damping', 'armature', 'stiffness'):
    if k in jt and fr(jt[k]) != 0:
      a += f' {k}="{fl(jt[k])!r}"'
  return a + extra + '/>'


def render(model, *, gravity=(0.0, 0.0, -9.81), dt=0.002, collide=False, limits=True, actuators=(), option_extra='',
           joint_extra=None, geom_extra=None, body_extra=None, top_extra='', ground=False, custom=None,
           geom_override=None, joints_override=None):
  """Returns MJCF for the model. `actuators`: list of dicts(kind, link, j, gear, kp, kv, ctrlrange, forcerange)."""
  links = model['links']
  kids = {}
  for i, l in enumerate(links, 1):
    kids.setdefault(l['parent'], []).append(i)
  col = '' if collide else 'contype="0" conaffinity="0"'

  def emit(i, ind):
    l = links[i - 1]
    sp = ' ' * ind
    out = [f'{sp}<body name="L{i}" pos="{vec(l["pos"])}" quat="{vec(l["quat"])}">']
    if joints_override is not None and i in joints_override:
      for jx in joints_override[i]:
        out.append(sp + '  ' + jx)
    elif l['root'] == 'free':
      out.append(f'{sp}  <freejoint name="J{i}_f"/>')
    else:
      for j, jt in enumerate(l['stack'], 1):
        ex = (joint_extra or {}).get((i, j), '')
        out.append(sp + '  ' + joint_xml(i, j, jt, l['anchor'], limits=limits, extra=ex))
    out.append(f'{sp}  <inertial pos="{vec(l["ipos"])}" quat="{vec(l["iquat"])}" mass="{fl(l["mass"])!r}" '
               f'diaginertia="{vec(l["diag"])}"/>')
    g = l.get('geom', 0)
    if geom_override is not None:
      for gx in geom_override.get(i, []):
        out.append(sp + '  ' + gx)
    elif g:
      ge = (geom_extra or {}).get(i, '')
      out.append(sp + '  ' + GEOMS[g].format(i=i, col=(col + ' ' + ge).strip()))
    if body_extra and i in body_extra:
      out.append(sp + '  ' + body_extra[i])
    for c in kids.get(i, []):
      out += emit(c, ind + 2)
    out.append(f'{sp}</body>')
    return out

  body = []
  if ground:
    body.append('    <geom name="ground" type="plane" size="0 0 1" pos="0 0 0"/>')
  for c in kids.get(0, []):
    body += emit(c, 4)
  acts = []
  for n, a in enumerate(actuators, 1):
    jn = f'J{a["link"]}_{a["j"]}'
    s = f'<{a["kind"]} name="A{n}" joint="{jn}" gear="{a.get("gear", 1)!r}"'
    if a['kind'] == 'position':
      s += f' kp="{a["kp"]!r}"'
    if a['kind'] == 'velocity':
      s += f' kv="{a["kv"]!r}"'
    if a.get('ctrlrange') is not None:
      s += f' ctrllimited="true" ctrlrange="{a["ctrlrange"][0]!r} {a["ctrlrange"][1]!r}"'
    if a.get('forcerange') is not None:
      s += f' forcelimited="true" forcerange="{a["forcerange"][0]!r} {a["forcerange"][1]!r}"'
    s += a.get('extra', '') + '/>'
    acts.append('    ' + s)
  cust = ''
  if custom:
    cust = '  <custom>\n' + '\n'.join(f'    <numeric name="{k}" data="{v}"/>' for k, v in custom.items()) + '\n  </custom>\n'
  return ('<mujoco>\n  <compiler angle="radian" autolimits="false"/>\n'
          f'  <option gravity="{float(gravity[0])!r} {float(gravity[1])!r} {float(gravity[2])!r}" timestep="{float(dt)!r}" {option_extra}/>\n' + cust +
          top_extra + '  <worldbody>\n' + '\n'.join(body) + '\n  </worldbody>\n' +
          ('  <actuator>\n' + '\n'.join(acts) + '\n  </actuator>\n' if acts else '') + '</mujoco>\n')


def structure(model):
  """nq, nv, link_types, link_parents of the model (mirrors ModelSpace.tla's helpers; used only for array sizing)."""
  nq = nv = 0
  types = ''
  for l in model['links']:
    if l['root'] == 'free':
      nq += 7
      nv += 6
      types += 'f'
    else:
      nq += len(l['stack'])
      nv += len(l['stack'])
      types += str(len(l['stack']))
  return nq, nv, types, tuple(l['parent'] - 1 for l in model['links'])
