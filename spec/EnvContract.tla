------------------------------------- MODULE EnvContract -------------------------------------
(* The Env contract as an automaton over recorded rollouts of one (environment, backend) pair,  *)
(* driven through the training wrappers:                                                         *)
(*   Make   : construction succeeds iff the pair is in the support matrix (unsupported pairs     *)
(*            must refuse, supported ones must not)                                              *)
(*   Reset  : done = 0, observation shape = declared size, everything finite, unit rotations     *)
(*   Step   : action of the declared size accepted; done in {0,1}; finite; unit rotations         *)
(*   Determinism: the state digest after (key, action-sequence prefix) is a FUNCTION of those:   *)
(*            the automaton remembers the digest seen first and every re-run must reproduce it.  *)
EXTENDS TraceLib, Integers, FiniteSets

VARIABLES tid, l, pc, memo, t
tvars == <<tid, l, pc, memo, t>>
ASSUME InitRegs

\* every registered physics environment runs on every native backend except swimmer (generalized only)
Supported(env, backend) == env # "swimmer" \/ backend = "generalized"

Ev == Traces[tid][l]
TraceInit == tid \in 1..NT /\ l = 1 /\ pc = "unmade" /\ memo = <<>> /\ t = 0
Adv == l <= Len(Traces[tid]) /\ l' = l + 1 /\ UNCHANGED tid

Healthy(e) == e.obs_ok = 1 /\ e.finite = 1 /\ e.unit = 1

\* memo is a sequence of <<key, digest>> pairs used as a partial function
Lookup(k) == {memo[i][2] : i \in {j \in 1..Len(memo) : memo[j][1] = k}}
Remember(k, d) == IF Lookup(k) = {} THEN memo' = Append(memo, <<k, d>>) ELSE (Lookup(k) = {d} /\ UNCHANGED memo)

Make == /\ pc = "unmade" /\ Ev.ev = "make"
        /\ (Ev.result = "ok") = Supported(Ev.env, Ev.backend)
        /\ pc' = IF Ev.result = "ok" THEN "made" ELSE "refused"
        /\ UNCHANGED <<memo, t>>
Reset == /\ pc \in {"made", "running"} /\ Ev.ev = "reset"
         /\ Ev.done = 0 /\ Healthy(Ev)
         /\ Remember(<<Ev.key, 0>>, Ev.digest)
         /\ pc' = "running" /\ t' = 0
Step == /\ pc = "running" /\ Ev.ev = "step"
        /\ Ev.t = t + 1 /\ Ev.act_ok = 1
        /\ Ev.done \in {0, 1} /\ Healthy(Ev)
        /\ Remember(<<Ev.key, Ev.prefix>>, Ev.digest)
        /\ t' = t + 1 /\ UNCHANGED pc

\* un-jitted, un-vmapped use: stepping twice from one state object gives the same history and leaves that object alone
Purity == pc = "running" /\ Ev.ev = "purity" /\ Ev.pure = 1 /\ UNCHANGED <<pc, memo, t>>

TraceNext == Adv /\ (Make \/ Reset \/ Step \/ Purity)
Progress == Reached(tid, l)
=====================================================================================
