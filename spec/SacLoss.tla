--------------------------------------- MODULE SacLoss ---------------------------------------
(* brax/training/agents/sac/losses.py make_losses: alpha, critic and actor losses on a batch of   *)
(* N transitions, as a staged computation over exact rationals (coverage beyond the listed        *)
(* properties).  Per transition the networks' outputs are data:                                   *)
(*   lp        log pi(a~ | s) of the freshly sampled action        qpi  = Q_k(s, a~),  k = 1, 2   *)
(*   qold      Q_k(s, a) of the action in the buffer                                              *)
(*   nlp, nq   log pi(a' | s') and the TARGET network's Q_k(s', a')                               *)
(*   r, disc (1 - done), trunc                                                                    *)
(*   stage "target": y = r * scale + disc * gamma * (min_k nq_k - alpha * nlp)                    *)
(*   stage "losses": critic = 1/2 mean_{i,k} ((qold_ik - y_i)(1 - trunc_i))^2                     *)
(*                   actor  = mean_i (alpha lp_i - min_k qpi_ik)                                  *)
(*                   alpha  = mean_i alpha (-lp_i - Ht),  Ht = -A / 2                             *)
EXTENDS Rat, Sequences, TLC, Prng

CONSTANTS NCases, SeedBase
VARIABLES cfg, tr, phase, y, out
vars == <<cfg, tr, phase, y, out>>

Alpha == <<RNorm(1, 5), RNorm(1, 2), ROne, R(2)>>
Gamma == <<RZero, RNorm(1, 2), RNorm(9, 10), ROne>>
Scale == <<ROne, RNorm(1, 10), R(5)>>
Mask == <<<<1, 0>>, <<1, 0>>, <<0, 0>>, <<0, 1>>>>       \* <<discount, truncation>>

Init ==
  /\ \E k \in 1..NCases :
       LET h == GenV(SeedBase + k, 6, 60)
           N == (h[1] % 4) + 1
           g == GenV(SeedBase + 7000 + k, 12 * N, 120)
           Half(v) == RNorm(v, 2)
       IN  /\ cfg = [N |-> N, alpha |-> Alpha[(h[2] % 4) + 1], gamma |-> Gamma[(h[3] % 4) + 1], scale |-> Scale[(h[4] % 3) + 1],
                     A |-> (h[5] % 3) + 1]
           /\ tr = [i \in 1..N |->
                 LET b == 12 * (i - 1) IN
                 [lp   |-> Half((g[b + 1] % 9) - 6),                       \* -3 .. 1
                  qpi  |-> <<R((g[b + 2] % 7) - 3), R((g[b + 3] % 7) - 3)>>,
                  qold |-> <<R((g[b + 4] % 7) - 3), R((g[b + 5] % 7) - 3)>>,
                  nlp  |-> Half((g[b + 6] % 9) - 6),
                  nq   |-> <<R((g[b + 7] % 7) - 3), R((g[b + 8] % 7) - 3)>>,
                  r    |-> R((g[b + 9] % 5) - 2),
                  disc |-> Mask[(g[b + 10] % 4) + 1][1],
                  trunc |-> Mask[(g[b + 10] % 4) + 1][2]]]
  /\ phase = "target" /\ y = <<>> /\ out = <<>>

N == cfg.N
TargetEntropy == RNorm(-cfg.A, 2)
NextV(i) == RSub(RMin(tr[i].nq[1], tr[i].nq[2]), RMul(cfg.alpha, tr[i].nlp))
Target ==
  /\ phase = "target" /\ phase' = "losses"
  /\ y' = [i \in 1..N |-> RAdd(RMul(tr[i].r, cfg.scale), RMul(RMul(R(tr[i].disc), cfg.gamma), NextV(i)))]
  /\ UNCHANGED <<cfg, tr, out>>

QErr(i, k) == RMul(RSub(tr[i].qold[k], y[i]), R(1 - tr[i].trunc))
Sum(f(_), m) == LET RECURSIVE S(_) S(j) == IF j = 0 THEN RZero ELSE RAdd(S(j - 1), f(j)) IN S(m)
Losses ==
  /\ phase = "losses" /\ phase' = "done"
  /\ LET Sq(j) == RSq(QErr(((j - 1) \div 2) + 1, ((j - 1) % 2) + 1))
         Act(i) == RSub(RMul(cfg.alpha, tr[i].lp), RMin(tr[i].qpi[1], tr[i].qpi[2]))
         Alp(i) == RMul(cfg.alpha, RSub(RNeg(tr[i].lp), TargetEntropy))
     IN out' = [critic |-> RDiv(Sum(Sq, 2 * N), R(4 * N)),
                actor  |-> RDiv(Sum(Act, N), R(N)),
                alpha  |-> RDiv(Sum(Alp, N), R(N))]
  /\ UNCHANGED <<cfg, tr, y>>

Next == Target \/ Losses
Spec == Init /\ [][Next]_vars

----------------------------------------------------------------------------------------------
HasY == phase \in {"losses", "done"}
\* a terminated transition does not bootstrap; a truncated one gives the critic no signal at all
TerminalNoBootstrap == HasY => \A i \in 1..N : tr[i].disc = 0 => y[i] = RMul(tr[i].r, cfg.scale)
TruncatedSilent == HasY => \A i \in 1..N : tr[i].trunc = 1 => (QErr(i, 1) = RZero /\ QErr(i, 2) = RZero)
\* clipped double-Q: the target never exceeds what either target critic alone would give
PessimisticTarget == HasY => \A i \in 1..N, k \in 1..2 :
  RLe(y[i], RAdd(RMul(tr[i].r, cfg.scale), RMul(RMul(R(tr[i].disc), cfg.gamma), RSub(tr[i].nq[k], RMul(cfg.alpha, tr[i].nlp)))))
CriticNonNegative == phase = "done" => RLe(RZero, out.critic)
\* the temperature is pushed down exactly when the policy is, on average, more random than the target entropy
AlphaPressure == phase = "done" =>
  (RLt(RZero, out.alpha) <=> RLt(TargetEntropy, RDiv(Sum(LAMBDA i : RNeg(tr[i].lp), N), R(N))))
Done == phase = "done"
==============================================================================================
