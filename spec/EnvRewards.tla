------------------------------------- MODULE EnvRewards -------------------------------------
(* The reward / termination semantics the bundled locomotion and manipulation environments     *)
(* document (coverage beyond the listed properties; C16 only covers the Env contract), as laws *)
(* over recorded un-wrapped rollouts.  Quantities arrive quantised (1e-5); the specification   *)
(* adds, compares and remembers (psi of the previous step):                                    *)
(*   RewardIsSumOfComponents : reward = const + sum of the weighted reward_* metrics            *)
(*   CtrlCostLaw            : the control metric = -w * |a|^2 of the action that was SENT      *)
(*                            (rescaled to the actuator range where the environment does so)   *)
(*   ForwardIsDisplacement  : forward reward at step t = psi_t - psi_(t-1),                    *)
(*                            psi = weight * x_position / dt    (a law across two steps)       *)
(*   TerminationLaw         : height outside the healthy range  =>  done = terminates;         *)
(*                            inside (environments whose only rule is height) => done = 0;     *)
(*                            an environment that never terminates reports done = 0            *)
(*   SurviveLaw             : the alive bonus is the configured constant while terminating     *)
EXTENDS TraceLib, Integers, Sequences

VARIABLES tid, l, psi, have
tvars == <<tid, l, psi, have>>
ASSUME InitRegs

Tol == 4
Abs(x) == IF x < 0 THEN -x ELSE x
SumSeq(s) == LET RECURSIVE S(_) S(i) == IF i = 0 THEN 0 ELSE S(i - 1) + s[i] IN S(Len(s))
Ev == Traces[tid][l]

TraceInit == tid \in 1..NT /\ l = 1 /\ psi = 0 /\ have = 0
Adv == l <= Len(Traces[tid]) /\ l' = l + 1 /\ UNCHANGED tid

Reset == Ev.ev = "reset" /\ Ev.done = 0 /\ Ev.reward = 0 /\ have' = 0 /\ psi' = 0
Step ==
  /\ Ev.ev = "step"
  /\ Abs(Ev.reward - Ev.const - SumSeq(Ev.comps)) <= Tol
  /\ Ev.has_ctrl = 1 => Abs(Ev.ctrl - Ev.ctrl_expected) <= Tol
  /\ (have = 1 /\ Ev.has_fwd = 1) => Abs(Ev.fwd - (Ev.psi - psi)) <= Tol
  /\ Ev.zclass = "out" => Ev.done = Ev.terminates
  /\ (Ev.zclass = "in" /\ Ev.zonly = 1) => Ev.done = 0
  /\ Ev.terminates = 0 => Ev.done = 0
  /\ Ev.done \in {0, 1}
  /\ (Ev.has_survive = 1 /\ Ev.terminates = 1) => Abs(Ev.survive - Ev.healthy_reward) <= Tol
  /\ psi' = Ev.psi /\ have' = Ev.has_fwd

TraceNext == Adv /\ (Reset \/ Step)
Progress == Reached(tid, l)
=============================================================================================
