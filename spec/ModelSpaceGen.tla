---------------------------------- MODULE ModelSpaceGen ----------------------------------
(* Enumerates ModelSpace models only (no exact computation): the model source of every     *)
(* relational (mode C) check.                                                               *)
EXTENDS ModelSpace
CONSTANTS MaxLinks, NModels
VARIABLE model
ModelsOnlyInit == \E n \in 1..MaxLinks : \E g \in Genomes(NModels, n) : model = DecodeModel(g, n)
ModelsOnlyNext == UNCHANGED model
ModelWellFormed == WellFormed(model)
=====================================================================================
