--------------------------------- MODULE RunningStats ---------------------------------
(* brax/training/acme/running_statistics.py as an exact-arithmetic state machine.       *)
(* F features share the sample weights (as the leaves of one observation nest do).      *)
(*   Update        : the batched Welford step of the code, line by line                 *)
(*   ShardedUpdate : the pmap_axis_name path: per-device partial sums + psum            *)
(* Ghost `bag` is the multiset of weighted samples seen; the property says the          *)
(* accumulator equals the population statistics of the bag however it was batched.      *)
EXTENDS Rat, Sequences, TLC, Randomization

CONSTANTS F,            \* number of features
          Xs, Ws,       \* lattices for sample values and integer weights
          MaxBatch,     \* samples per batch 1..MaxBatch
          MaxUpdates,   \* depth
          NPick,        \* 0: all batches; n: n random batches per state
          StdMin, StdMax   \* clip bounds (Rat)

VARIABLES count, mean, m2,     \* RunningStatisticsState (mean, m2: per feature)
          bag,                 \* ghost: sequence of <<x (per feature), w>>
          hist,                \* the updates applied so far: <<kind, batch>>
          tw,                  \* twin accumulator fed a*x + b (affine lemma)
          exp                  \* expected public fields derived from the accumulator (var, clip case)

vars == <<count, mean, m2, bag, hist, tw, exp>>
Feat == 1..F

Sample == [x : [Feat -> Xs], w : Ws]
Batches == UNION {[1..n -> Sample] : n \in 1..MaxBatch}
SumW(b) == LET RECURSIVE S(_) S(i) == IF i = 0 THEN 0 ELSE S(i - 1) + b[i].w IN S(Len(b))

\* sum over a batch of a Rat-valued term
RSum(b, T(_)) == LET RECURSIVE S(_) S(i) == IF i = 0 THEN RZero ELSE RAdd(S(i - 1), T(i)) IN S(Len(b))

\* ---- update(state, batch, weights=w): one feature
Welford(cnt1, mu, s2, b, f) ==
  LET dOld(i)  == RMul(RSub(R(b[i].x[f]), mu), R(b[i].w))           \* (batch - mean) * weights
      mu1      == RAdd(mu, RDiv(RSum(b, dOld), cnt1))                \* mean + sum(diff_to_old_mean) / count
      vUpd(i)  == RMul(dOld(i), RSub(R(b[i].x[f]), mu1))             \* diff_to_old_mean * diff_to_new_mean
  IN  <<mu1, RAdd(s2, RSum(b, vUpd))>>

\* ---- the same through D devices and psum: partial sums per device, then added
ShardWelford(cnt1, mu, s2, shards, f) ==
  LET dOld(b, i) == RMul(RSub(R(b[i].x[f]), mu), R(b[i].w))
      part(k)    == LET b == shards[k] T(i) == dOld(b, i) IN RDiv(RSum(b, T), cnt1)   \* per-device mean_update
      mu1        == LET RECURSIVE P(_) P(k) == IF k = 0 THEN mu ELSE RAdd(P(k - 1), part(k)) IN P(Len(shards))
      vpart(k)   == LET b == shards[k] T(i) == RMul(dOld(b, i), RSub(R(b[i].x[f]), mu1)) IN RSum(b, T)
      s21        == LET RECURSIVE P(_) P(k) == IF k = 0 THEN s2 ELSE RAdd(P(k - 1), vpart(k)) IN P(Len(shards))
  IN  <<mu1, s21>>

Affine(b) == [i \in 1..Len(b) |-> [x |-> [f \in Feat |-> 2 * b[i].x[f] - 3], w |-> b[i].w]]

\* std is specified through its square and the clip:  std = clip(sqrt(max(m2, 0) / count), StdMin, StdMax)
VarOf(c, s2) == RDiv(RMax(s2, RZero), R(c))
StdCaseOf(v) == IF RLe(v, RSq(StdMin)) THEN "lo" ELSE IF RLe(RSq(StdMax), v) THEN "hi" ELSE "mid"
ExpectedOf(c, s2v) == [var |-> [f \in Feat |-> VarOf(c, s2v[f])],
                       stdcase |-> [f \in Feat |-> StdCaseOf(VarOf(c, s2v[f]))]]

Init ==
  /\ count = 0 /\ mean = [f \in Feat |-> RZero] /\ m2 = [f \in Feat |-> RZero]
  /\ bag = <<>> /\ hist = <<>> /\ exp = [var |-> [f \in Feat |-> RZero], stdcase |-> [f \in Feat |-> "init"]]
  /\ tw = [mean |-> [f \in Feat |-> RZero], m2 |-> [f \in Feat |-> RZero]]

Pick(S) == IF NPick = 0 THEN S ELSE RandomSubset(NPick, S)

Update(b) ==
  /\ Len(hist) < MaxUpdates
  /\ count + SumW(b) > 0                       \* total weight of the first batch positive
  /\ LET c1 == count + SumW(b)
         r  == [f \in Feat |-> Welford(R(c1), mean[f], m2[f], b, f)]
         rt == [f \in Feat |-> Welford(R(c1), tw.mean[f], tw.m2[f], Affine(b), f)]
     IN  /\ count' = c1
         /\ mean' = [f \in Feat |-> r[f][1]] /\ m2' = [f \in Feat |-> r[f][2]]
         /\ tw' = [mean |-> [f \in Feat |-> rt[f][1]], m2 |-> [f \in Feat |-> rt[f][2]]]
  /\ bag' = bag \o b
  /\ exp' = ExpectedOf(count', m2')
  /\ hist' = Append(hist, <<"update", b>>)

\* two devices, the batch split in halves (pmap needs equal shapes)
ShardedUpdate(b) ==
  /\ Len(hist) < MaxUpdates /\ Len(b) % 2 = 0
  /\ count + SumW(b) > 0
  /\ LET c1 == count + SumW(b)                 \* psum(step_increment)
         h  == Len(b) \div 2
         sh == <<SubSeq(b, 1, h), SubSeq(b, h + 1, Len(b))>>
         r  == [f \in Feat |-> ShardWelford(R(c1), mean[f], m2[f], sh, f)]
         rt == [f \in Feat |-> Welford(R(c1), tw.mean[f], tw.m2[f], Affine(b), f)]
     IN  /\ count' = c1
         /\ mean' = [f \in Feat |-> r[f][1]] /\ m2' = [f \in Feat |-> r[f][2]]
         /\ tw' = [mean |-> [f \in Feat |-> rt[f][1]], m2 |-> [f \in Feat |-> rt[f][2]]]
  /\ bag' = bag \o b
  /\ exp' = ExpectedOf(count', m2')
  /\ hist' = Append(hist, <<"sharded", b>>)

Next == \E n \in 1..MaxBatch : \E b \in Pick([1..n -> Sample]) : Update(b) \/ ShardedUpdate(b)
Spec == Init /\ [][Next]_vars

-------------------------------------------------------------------------------------
(* The property: population statistics of everything seen. *)
BagW == SumW(bag)
PopMean(f) == LET T(i) == R(bag[i].w * bag[i].x[f]) IN RDiv(RSum(bag, T), R(BagW))
PopM2(f)   == LET mu == PopMean(f)
                  T(i) == RMul(R(bag[i].w), RSq(RSub(R(bag[i].x[f]), mu)))
              IN  RSum(bag, T)

EqualsPopulationStatistics ==
  bag # <<>> => /\ count = BagW
                /\ \A f \in Feat : mean[f] = PopMean(f) /\ m2[f] = PopM2(f)

\* Update commutes with x |-> 2x - 3  (licenses the harness's exact dyadic rescaling)
AffineLemma ==
  bag # <<>> => \A f \in Feat : /\ tw.mean[f] = RSub(RMul(R(2), mean[f]), R(3))
                                /\ tw.m2[f] = RMul(R(4), m2[f])

M2NonNegative == \A f \in Feat : RLe(RZero, m2[f])

XsSmall == {-1, 0, 2}
XsWide == -2..2
WsAll == 0..2
WsWide == 0..4
RHalf == <<1, 2>>
RThreeHalves == <<3, 2>>
RCenti == <<1, 100>>
RHecto == <<100, 1>>
=====================================================================================
