--------------------------------- MODULE SpatialAlgebra ---------------------------------
(* Rigid-body spatial algebra laws over the integers.  Each family picks its inputs from  *)
(* a grid with more points per variable than the law's per-variable degree, so a law that *)
(* holds on the whole grid is a polynomial identity (holds for all reals).  `Compute`     *)
(* evaluates every primitive the law mentions; the dumped values are the expected results *)
(* of the corresponding brax.math / brax.base functions on the same integers, where       *)
(* float64 is exact.  Non-unit quaternions are fine: rotate(v, q) = |q|^2 R(q) v.         *)
EXTENDS IntAlg, TLC, Randomization, Prng

CONSTANTS Families,   \* which families to explore in this run
          NSample,    \* sample size for the families whose full grid is too large
          SeedBase

VARIABLES fam, inp, res, done
vars == <<fam, inp, res, done>>

B == {0, 1}
T == {-1, 0, 1}
Q(S) == S \X S \X S \X S
V(S) == S \X S \X S
Tr(SQ, SV) == [pos : V(SV), rot : Q(SQ)]
Mo(S) == [ang : V(S), vel : V(S)]
\* sampled families draw a flat vector of K grid values (RandomSubset is lazy on function sets) and unpack it
Flat(K, S) == RandomSubset(NSample, [1..K -> S])
V3At(x, o) == <<x[o + 1], x[o + 2], x[o + 3]>>
TrAt(x, o) == [pos |-> V3At(x, o), rot |-> <<x[o + 4], x[o + 5], x[o + 6], x[o + 7]>>]
MoAt(x, o) == [ang |-> V3At(x, o), vel |-> V3At(x, o + 3)]

Init ==
  /\ res = <<>> /\ done = FALSE
  /\ fam \in Families
  /\ \/ fam = "qassoc"   /\ inp \in [p : Q(B), q : Q(B), r : Q(B)]                  \* trilinear: 2 points suffice
     \/ fam = "qnorm"    /\ inp \in [p : Q(T), q : Q(T)]                            \* degree 2 per variable
     \/ fam = "rotcomp"  /\ inp \in [p : Q(T), q : Q(T), v : V(B)]
     \/ fam = "tassoc"   /\ \E x \in Flat(21, T) : inp = [a |-> TrAt(x, 0), b |-> TrAt(x, 7), c |-> TrAt(x, 14)]
     \/ fam = "dual"     /\ \E x \in Flat(19, T) : inp = [t |-> TrAt(x, 0), m |-> MoAt(x, 7), f |-> MoAt(x, 13)]
     \/ fam = "cross"    /\ \E x \in Flat(18, B) : inp = [m |-> MoAt(x, 0), n |-> MoAt(x, 6), f |-> MoAt(x, 12)]
     \/ fam = "wide"     /\ \E x \in {[i \in 1..26 |-> GenV(SeedBase + k, 26, 19)[i] - 9] : k \in 1..NSample} : inp = [t |-> TrAt(x, 0), u |-> TrAt(x, 7), m |-> MoAt(x, 14), f |-> MoAt(x, 20)]

Compute ==
  /\ ~done /\ done' = TRUE
  /\ res' =
       CASE fam = "qassoc" -> [pq |-> QMul(inp.p, inp.q), qr |-> QMul(inp.q, inp.r),
                               pq_r |-> QMul(QMul(inp.p, inp.q), inp.r), p_qr |-> QMul(inp.p, QMul(inp.q, inp.r))]
         [] fam = "qnorm"  -> [pq |-> QMul(inp.p, inp.q), np |-> QNorm2(inp.p), nq |-> QNorm2(inp.q),
                               npq |-> QNorm2(QMul(inp.p, inp.q)), qinv |-> QConj(inp.q),
                               q_qinv |-> QMul(inp.q, QConj(inp.q)),
                               vq |-> QMul(QPure(QVec(inp.p)), inp.q)]            \* vec_quat_mul(p[1:], q)
         [] fam = "rotcomp" -> [rot_q |-> Rot(inp.v, inp.q), rot_pq |-> Rot(inp.v, QMul(inp.p, inp.q)),
                                rot_q_p |-> Rot(Rot(inp.v, inp.q), inp.p),
                                m3q |-> M3(inp.q), m3q_v |-> MatVec(M3(inp.q), inp.v),
                                back |-> Rot(Rot(inp.v, inp.q), QConj(inp.q)), nq |-> QNorm2(inp.q)]
         [] fam = "tassoc" -> [ab |-> TDo(inp.a, inp.b), bc |-> TDo(inp.b, inp.c),
                               ab_c |-> TDo(TDo(inp.a, inp.b), inp.c), a_bc |-> TDo(inp.a, TDo(inp.b, inp.c)),
                               id_a |-> TDo(TIdentity, inp.a), a_id |-> TDo(inp.a, TIdentity),
                               loc |-> TToLocal(TDo(inp.a, inp.b), inp.a), na |-> QNorm2(inp.a.rot)]
         [] fam = "dual"   -> [tm |-> MDo(inp.t, inp.m), tf |-> FDo(inp.t, inp.f), tinv |-> MInvDo(inp.t, inp.m),
                               p_out |-> MDot(FDo(inp.t, inp.f), inp.m), p_in |-> MDot(inp.f, MDo(inp.t, inp.m)),
                               round |-> MInvDo(inp.t, MDo(inp.t, inp.m)), nq |-> QNorm2(inp.t.rot)]
         [] fam = "cross"  -> [mm |-> MCrossM(inp.m, inp.m), mn |-> MCrossM(inp.m, inp.n), nm |-> MCrossM(inp.n, inp.m),
                               mf |-> MCrossF(inp.m, inp.f),
                               lhs |-> MDot(MCrossF(inp.m, inp.f), inp.n), rhs |-> -MDot(inp.f, MCrossM(inp.m, inp.n))]
         [] fam = "wide"   -> [tu |-> TDo(inp.t, inp.u), tm |-> MDo(inp.t, inp.m), tf |-> FDo(inp.t, inp.f),
                               p_out |-> MDot(FDo(inp.t, inp.f), inp.m), p_in |-> MDot(inp.f, MDo(inp.t, inp.m)),
                               mf |-> MCrossF(inp.m, inp.f), rot |-> Rot(inp.m.ang, inp.t.rot),
                               m3 |-> M3(inp.t.rot), m3v |-> MatVec(M3(inp.t.rot), inp.m.ang)]
  /\ UNCHANGED <<fam, inp>>

Next == Compute
Spec == Init /\ [][Next]_vars

-------------------------------------------------------------------------------------
Done(f) == fam = f /\ done
Zero3 == <<0, 0, 0>>

QuatMulAssociative == Done("qassoc") => res.pq_r = res.p_qr
QuatNormMultiplicative == Done("qnorm") => res.npq = res.np * res.nq
QuatInverse == Done("qnorm") => res.q_qinv = <<res.nq, 0, 0, 0>>
RotateByProductIsSuccessive == Done("rotcomp") => res.rot_pq = res.rot_q_p
RotateAgreesWithMatrix == Done("rotcomp") => res.rot_q = res.m3q_v
RotateInverse == Done("rotcomp") => res.back = VScale(res.nq * res.nq, inp.v)
TransformAssociative == Done("tassoc") => res.ab_c = res.a_bc
TransformIdentity == Done("tassoc") => res.id_a = inp.a /\ res.a_id = inp.a
TransformInverse == Done("tassoc") => /\ res.loc.pos = VScale(res.na * res.na, inp.b.pos)
                                      /\ res.loc.rot = <<res.na * inp.b.rot[1], res.na * inp.b.rot[2],
                                                         res.na * inp.b.rot[3], res.na * inp.b.rot[4]>>
PowerIsFrameIndependent == (Done("dual") \/ Done("wide")) => res.p_out = res.p_in
MotionRoundTrip == Done("dual") => /\ res.round.ang = VScale(res.nq * res.nq, inp.m.ang)
                                   /\ res.round.vel = VScale(res.nq * res.nq, inp.m.vel)
CrossAntisymmetric == Done("cross") => /\ res.mm = [ang |-> Zero3, vel |-> Zero3]
                                       /\ res.mn.ang = VNeg(res.nm.ang) /\ res.mn.vel = VNeg(res.nm.vel)
CrossDual == Done("cross") => res.lhs = res.rhs
WideMatrix == Done("wide") => res.rot = res.m3v
=====================================================================================
