-------------------------------------- MODULE Dynamics --------------------------------------
(* Joint-space dynamics terms of a ModelSpace model over exact rationals, from the            *)
(* DEFINITIONS (kinetic-energy form of the inertia matrix via link Jacobians; gravity as the  *)
(* gradient of potential energy; passive spring-dampers), not from the recursive algorithms   *)
(* the implementation uses.  Exact for every configuration when the system is at rest, and    *)
(* with non-zero velocity for prismatic-only models under world-attached roots, whose inertia *)
(* matrix is constant (no velocity-product forces).                                           *)
(*   M      = sum_k  m_k Jv_k^T Jv_k + Jw_k^T (R_k I_k R_k^T) Jw_k  + diag(armature)          *)
(*   bias   = - sum_k m_k Jv_k^T g            (at rest / constant M)                           *)
(*   passive= - K q - D qd    on hinge and slide dofs                                          *)
(*   smooth = passive - bias + tau                                                              *)
(*   step   : (M + dt D) (qd' - qd) = dt smooth ,  q' = q + dt qd'                              *)
EXTENDS KinematicsOps

CONSTANTS MaxLinks, NModels, NPoses, Budget

VARIABLES model, pose, grav, tau, out, phase
vars == <<model, pose, grav, tau, out, phase>>

Gravs == << <<RZero, RZero, RNorm(-981, 100)>>, <<R(1), R(-2), R(-9)>>, <<RZero, RZero, RZero>>, <<R(3), RZero, R(-4)>> >>

\* ---- dof table: one entry per velocity coordinate, in coordinate order
RECURSIVE DofSeq(_, _)
DofSeq(m, i) ==
  IF i = 0 THEN <<>>
  ELSE DofSeq(m, i - 1) \o
       (IF m.links[i].root = "free"
          THEN [k \in 1..6 |-> [link |-> i, j |-> k, kind |-> IF k <= 3 THEN "FL" ELSE "FA"]]
          ELSE [k \in 1..Len(m.links[i].stack) |-> [link |-> i, j |-> k, kind |-> m.links[i].stack[k].kind]])

\* frame of link i just before joint j of its stack is applied
RECURSIVE IsAnc(_, _, _)
IsAnc(m, a, k) == k # 0 /\ (a = k \/ IsAnc(m, a, m.links[k].parent))     \* a is k or an ancestor of k

FrameBefore(m, ps, i, j) ==
  LET l == m.links[i]
      pf == IF l.parent = 0 THEN RTId ELSE WorldFrame(m, ps, l.parent)
      placed == RTDo(pf, [pos |-> l.pos, rot |-> l.quat])
  IN  ApplyStack(placed, l, ps[i].joints, j - 1)

Unit(k) == IF k = 1 THEN X ELSE IF k = 2 THEN Y ELSE Z

\* world axis and a point on the axis (for rotational dofs) of dof d
DofAxis(m, ps, d) ==
  IF d.kind = "FL" THEN Unit(d.j)                                                     \* world-frame translation
  ELSE IF d.kind = "FA" THEN RRot(Unit(d.j - 3), ps[d.link].rootquat)                 \* body-local rotation axes
  ELSE RRot(m.links[d.link].stack[d.j].axis, FrameBefore(m, ps, d.link, d.j).rot)
DofPoint(m, ps, d) ==
  IF d.kind = "FA" THEN ps[d.link].rootpos
  ELSE LET fb == FrameBefore(m, ps, d.link, d.j) IN RVAdd(fb.pos, RRot(m.links[d.link].anchor, fb.rot))

\* link k: centre of mass, world inertia tensor
Com(m, ps, k) == LET f == WorldFrame(m, ps, k) IN RVAdd(f.pos, RRot(m.links[k].ipos, f.rot))
Diag3(dg) == << <<dg[1], RZero, RZero>>, <<RZero, dg[2], RZero>>, <<RZero, RZero, dg[3]>> >>
WorldInertia(m, ps, k) ==
  LET Rm == RM3(RQMul(WorldFrame(m, ps, k).rot, m.links[k].iquat))
  IN  RMatMul(RMatMul(Rm, Diag3(m.links[k].diag)), RMatT(Rm))

\* Jacobian columns of dof d for link k (zero unless d's link is k or an ancestor of k)
Jw(m, ps, d, k) == IF ~IsAnc(m, d.link, k) \/ d.kind \in {"FL", "S"} THEN RVZero ELSE DofAxis(m, ps, d)
Jv(m, ps, d, k) ==
  IF ~IsAnc(m, d.link, k) THEN RVZero
  ELSE IF d.kind \in {"FL", "S"} THEN DofAxis(m, ps, d)
  ELSE RVCross(DofAxis(m, ps, d), RVSub(Com(m, ps, k), DofPoint(m, ps, d)))

SumLinks(n, T(_)) == LET RECURSIVE S(_) S(k) == IF k = 0 THEN RZero ELSE RAdd(S(k - 1), T(k)) IN S(n)

Armature(m, d) == IF d.kind \in {"H", "S"} THEN m.links[d.link].stack[d.j].armature ELSE RZero
Damping(m, d) == IF d.kind \in {"H", "S"} THEN m.links[d.link].stack[d.j].damping ELSE RZero
Stiffness(m, d) == IF d.kind \in {"H", "S"} THEN m.links[d.link].stack[d.j].stiffness ELSE RZero

MassEntry(m, ps, a, b) ==
  LET T(k) == RAdd(RMul(m.links[k].mass, RVDot(Jv(m, ps, a, k), Jv(m, ps, b, k))),
                   RVDot(Jw(m, ps, a, k), RMatVec(WorldInertia(m, ps, k), Jw(m, ps, b, k))))
  IN  RAdd(SumLinks(NLinks(m), T), IF a = b THEN Armature(m, a) ELSE RZero)

GravBias(m, ps, g, a) ==
  LET T(k) == RMul(m.links[k].mass, RVDot(Jv(m, ps, a, k), g)) IN RNeg(SumLinks(NLinks(m), T))

\* joint coordinate / velocity of a 1-dof joint as rationals (hinge angles are NOT rational: the spring force on a
\* hinge with stiffness uses the angle, so stiffness on hinges is only specified when the angle is zero)
JointQ(m, ps, d) == IF d.kind = "S" THEN ps[d.link].joints[d.j].d ELSE RZero
JointQd(m, ps, d) == IF d.kind \in {"H", "S"} THEN ps[d.link].joints[d.j].qd
                     ELSE IF d.kind = "FL" THEN ps[d.link].qdlin[d.j] ELSE ps[d.link].qdang[d.j - 3]
HingeAtZero(m, ps, d) == d.kind = "H" => ps[d.link].joints[d.j].ha[2] = 0
Passive(m, ps, d) == RSub(RNeg(RMul(Stiffness(m, d), JointQ(m, ps, d))), RMul(Damping(m, d), JointQd(m, ps, d)))

\* velocity-product forces vanish: at rest, or prismatic-only under world-attached roots
AtRest(m, ps) == \A i \in 1..NLinks(m) :
                   IF m.links[i].root = "free" THEN ps[i].qdlin = RVZero /\ ps[i].qdang = RVZero
                   ELSE \A j \in 1..Len(m.links[i].stack) : ps[i].joints[j].qd = RZero
PrismaticOnly(m) == \A i \in 1..NLinks(m) : m.links[i].root = "joints" /\ \A j \in 1..Len(m.links[i].stack) : m.links[i].stack[j].kind = "S"

ZeroVel(m, ps) ==      \* the same pose with all velocities cleared
  [i \in 1..NLinks(m) |-> [ps[i] EXCEPT !.qdlin = RVZero, !.qdang = RVZero,
                                        !.joints = [j \in 1..Len(ps[i].joints) |-> [ps[i].joints[j] EXCEPT !.qd = RZero]]]]

\* a hinge with a spring must sit at angle zero for the spring force to be rational
SpringsRational(m, ps) ==
  \A i \in 1..NLinks(m) : \A j \in 1..Len(m.links[i].stack) :
     (m.links[i].stack[j].kind = "H" /\ m.links[i].stack[j].stiffness # RZero) => ps[i].joints[j].ha[2] = 0

Init ==
  /\ phase = "init" /\ out = <<>>
  /\ \E n \in 1..MaxLinks :
       \E g \in Genomes(NModels, n) :
         /\ model = DecodeModel(g, n)
         /\ \E p \in {Gen(SeedBase + 7919 * k + g[1] + 13 * g[5] + 101 * g[9], n * PGW + 8) : k \in 1..NPoses} :
              LET ps == DecodePose(model, p) IN
              /\ pose = IF PrismaticOnly(model) /\ p[n * PGW + 1] % 2 = 0 THEN ps ELSE ZeroVel(model, ps)
              /\ grav = Gravs[(p[n * PGW + 2] % 4) + 1]
              \* joint forces are applied through unit-gear motors on the hinge / slide dofs; free dofs get none
              /\ tau = [d \in 1..NV(model) |-> IF DofSeq(model, n)[d].kind \in {"FL", "FA"} THEN RZero
                                                ELSE RNorm(((p[n * PGW + 3] * d) % 7) - 3, 2)]
  \* inertia tensors are quartic in the quaternion components: the orientation of every inertial frame (chain + iquat)
  \* may contain at most `Budget` genuine /5 rotations (denominator-<=2 rotations are free)
  /\ \A i \in 1..NLinks(model) : ChainCost(model, pose, i) + QuatCost(model.links[i].iquat) <= Budget
  /\ SpringsRational(model, pose)

Compute ==
  /\ phase = "init" /\ phase' = "done"
  /\ LET ds == DofSeq(model, NLinks(model))
         nv == Len(ds)
         M  == [a \in 1..nv |-> [b \in 1..nv |-> MassEntry(model, pose, ds[a], ds[b])]]
         bias == [a \in 1..nv |-> GravBias(model, pose, grav, ds[a])]
         pas  == [a \in 1..nv |-> Passive(model, pose, ds[a])]
     IN  out' = [nv |-> nv, M |-> M, bias |-> bias, passive |-> pas,
                 smooth |-> [a \in 1..nv |-> RAdd(RSub(pas[a], bias[a]), tau[a])],
                 damping |-> [a \in 1..nv |-> Damping(model, ds[a])],
                 atrest |-> AtRest(model, pose)]
  /\ UNCHANGED <<model, pose, grav, tau>>

Next == Compute
Spec == Init /\ [][Next]_vars

-------------------------------------------------------------------------------------
Done == phase = "done"
MassSymmetric == Done => \A a, b \in 1..out.nv : out.M[a][b] = out.M[b][a]
\* positive definite: all leading principal minors positive (exact, by fraction-free elimination on <= 3 dofs; for
\* larger systems the diagonal and 2x2 minors are checked)
Det2(M, a, b) == RSub(RMul(M[a][a], M[b][b]), RMul(M[a][b], M[b][a]))
SmallR(r) == r[2] <= 2000 /\ Abs(r[1]) <= 20000          \* products of such entries stay inside 32 bits
MassPositive == Done => /\ \A a \in 1..out.nv : RLt(RZero, out.M[a][a])
                        /\ \A a, b \in 1..out.nv :
                             (a # b /\ SmallR(out.M[a][a]) /\ SmallR(out.M[b][b]) /\ SmallR(out.M[a][b]))
                               => RLt(RZero, Det2(out.M, a, b))
ModelWellFormed == WellFormed(model)
=====================================================================================
