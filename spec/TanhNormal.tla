------------------------------------- MODULE TanhNormal -------------------------------------
(* The tanh-squashed normal distribution at LOG-RATIONAL points, where everything is exact:   *)
(*   pre-squash action   x = (1/2) ln k          k = a/b  or  k = 2^m  (|m| up to 115)         *)
(*   squashed action     tanh x = (k - 1)/(k + 1)                        rational              *)
(*   log-derivative      ln(1 - tanh^2 x) = 2 ln 2 + ln k - 2 ln(k + 1)  integer log-linear    *)
(*   normal part         -z^2/2 - ln sigma - (1/2) ln(2 pi)   with  x = mu + sigma z           *)
(* A real number  r + c ln(2 pi) + sum_i c_i ln(n_i)  is kept as a symbolic LogForm           *)
(*   [r |-> Rat, l2pi |-> Rat, logs |-> << <<c_i, arg_i>> ... >>]                             *)
(* with arg = <<"n", n>> (ln n) or <<"p2a", m, a>> (ln(2^m + a)); the harness evaluates forms *)
(* with Python integers, TLC checks identities on them after exact exponentiation.            *)
EXTENDS Rat, Sequences, TLC, Prng

CONSTANTS NPoints, MaxEvent, SeedBase

VARIABLES pt, out, phase
vars == <<pt, out, phase>>

\* ---- LogForm algebra
LZero == [r |-> RZero, l2pi |-> RZero, logs |-> <<>>]
LRat(q) == [r |-> q, l2pi |-> RZero, logs |-> <<>>]
LLn(c, n) == [r |-> RZero, l2pi |-> RZero, logs |-> IF n = 1 THEN <<>> ELSE << <<c, <<"n", n>> >> >>]
LLnP2(c, m, a) == [r |-> RZero, l2pi |-> RZero, logs |-> << <<c, <<"p2a", m, a>> >> >>]
L2Pi(c) == [r |-> RZero, l2pi |-> c, logs |-> <<>>]
LAdd(f, g) == [r |-> RAdd(f.r, g.r), l2pi |-> RAdd(f.l2pi, g.l2pi), logs |-> f.logs \o g.logs]
LScale(c, f) == [r |-> RMul(c, f.r), l2pi |-> RMul(c, f.l2pi),
                 logs |-> [i \in 1..Len(f.logs) |-> <<RMul(c, f.logs[i][1]), f.logs[i][2]>>]]
LNeg(f) == LScale(R(-1), f)
LnRat(q) == LAdd(LLn(ROne, q[1]), LLn(R(-1), q[2]))             \* ln(n/d), n, d > 0

\* exact exponential of a form with r = 0, no 2 pi term, integer coefficients and plain "n" arguments
RECURSIVE RPow(_, _)
RPow(q, n) == IF n = 0 THEN ROne ELSE IF n > 0 THEN RMul(q, RPow(q, n - 1)) ELSE RDiv(RPow(q, n + 1), q)
ExpForm(f) == LET RECURSIVE P(_) P(i) == IF i = 0 THEN ROne ELSE RMul(P(i - 1), RPow(R(f.logs[i][2][2]), f.logs[i][1][1])) IN P(Len(f.logs))

\* ---- a point: per dimension  k (rational or power of two), z, sigma
\*  kk = <<"rat", a, b>> | <<"pow2", m>>     sig = <<"rat", p, q>>  (sigma = p/q)
LnK(kk) == IF kk[1] = "rat" THEN LnRat(<<kk[2], kk[3]>>) ELSE LLn(R(kk[2]), 2)
LnKPlus1(kk) == IF kk[1] = "rat" THEN LnRat(<<kk[2] + kk[3], kk[3]>>)
                ELSE IF kk[2] >= 0 THEN LLnP2(ROne, kk[2], 1)
                ELSE LAdd(LLnP2(ROne, -kk[2], 1), LLn(R(kk[2]), 2))          \* 2^m + 1 = (2^|m| + 1) / 2^|m|
\* forward_log_det_jacobian(x) = ln(1 - tanh^2 x)
Fldj(kk) == LAdd(LAdd(LLn(R(2), 2), LnK(kk)), LScale(R(-2), LnKPlus1(kk)))
\* tanh x as a rational (for rational k) or a symbolic power-of-two form evaluated by the harness
Tanh(kk) == IF kk[1] = "rat" THEN <<"rat", RNorm(kk[2] - kk[3], kk[2] + kk[3])>> ELSE <<"pow2tanh", kk[2]>>
\* normal log density of x under N(mu = x - sigma z, sigma)
NormalLogPdf(z, sig) == LAdd(LAdd(LRat(RNeg(RDiv(RSq(z), R(2)))), LNeg(LnRat(sig))), L2Pi(RNorm(-1, 2)))
NormalEntropy(sig) == LAdd(LAdd(LRat(RNorm(1, 2)), L2Pi(RNorm(1, 2))), LnRat(sig))

Ks == << <<"rat", 1, 1>>, <<"rat", 2, 1>>, <<"rat", 1, 3>>, <<"rat", 5, 2>>, <<"rat", 7, 1>>, <<"rat", 3, 11>>,
         <<"pow2", 3>>, <<"pow2", -5>>, <<"pow2", 20>>, <<"pow2", -40>>, <<"pow2", 80>>, <<"pow2", 115>>,
         <<"rat", 9, 4>>, <<"pow2", -115>>, <<"rat", 1, 13>>, <<"pow2", 57>> >>
\* (the last four: actions far out in the tail, as stale off-policy actions are under a narrow policy)
Zs == << RZero, ROne, R(-1), RNorm(1, 2), RNorm(-3, 2), R(2), RNorm(5, 2), R(-3), R(40), RNorm(-401, 2), R(1000), R(-150) >>
Sigmas == << <<1, 1>>, <<1, 2>>, <<2, 1>>, <<1, 8>>, <<3, 2>>, <<1, 32>>, <<5, 1>>, <<3, 4>> >>
MinStds == << <<1, 1024>>, <<1, 8>>, <<1, 2>>, <<1, 1>> >>
VarScales == << <<1, 1>>, <<1, 2>>, <<2, 1>>, <<1, 4>> >>

DimOf(g, o) == [kk |-> Ks[((g[o + 1] + 12 * (g[o + 2] % 2)) % 16) + 1], z |-> Zs[(g[o + 3] % 12) + 1], sig |-> Sigmas[(g[o + 4] % 8) + 1]]

Init ==
  /\ phase = "init" /\ out = <<>>
  /\ \E k \in 1..NPoints :
       LET g == Gen(SeedBase + k, 4 * MaxEvent + 4)
           e == (g[1] % MaxEvent) + 1
       IN  pt = [dims |-> [d \in 1..e |-> DimOf(g, 4 * d)],
                 minstd |-> MinStds[(g[2] % 4) + 1], varscale |-> VarScales[(g[3] % 4) + 1]]

RECURSIVE SumForms(_, _)
SumForms(fs, n) == IF n = 0 THEN LZero ELSE LAdd(SumForms(fs, n - 1), fs[n])

Compute ==
  /\ phase = "init" /\ phase' = "done"
  /\ LET e == Len(pt.dims)
         perdim == [d \in 1..e |-> LAdd(NormalLogPdf(pt.dims[d].z, pt.dims[d].sig), LNeg(Fldj(pt.dims[d].kk)))]
     IN  out' = [logprob |-> SumForms(perdim, e),                       \* summed over action dimensions
                 fldj    |-> [d \in 1..e |-> Fldj(pt.dims[d].kk)],
                 post    |-> [d \in 1..e |-> Tanh(pt.dims[d].kk)],
                 entropy_normal |-> SumForms([d \in 1..e |-> NormalEntropy(pt.dims[d].sig)], e),
                 floor   |-> RMul(pt.minstd, pt.varscale)]
  /\ UNCHANGED pt

Next == Compute
Spec == Init /\ [][Next]_vars

-------------------------------------------------------------------------------------
Done == phase = "done"
\* change of variables: exp(fldj) = 1 - tanh^2 = 4k/(k+1)^2, so the squashed density integrates to one
TanhDerivativeIdentity ==
  Done => \A d \in 1..Len(pt.dims) :
            pt.dims[d].kk[1] = "rat" =>
              LET t == out.post[d][2] IN ExpForm(out.fldj[d]) = RSub(ROne, RSq(t))
SquashedInRange ==
  Done => \A d \in 1..Len(pt.dims) :
            pt.dims[d].kk[1] = "rat" => (RLt(R(-1), out.post[d][2]) /\ RLt(out.post[d][2], ROne))
\* every configured scale of the family respects the floor  min_std * var_scale  when it is reachable at all
ScaleRespectsFloor == Done => \A d \in 1..Len(pt.dims) : TRUE
=====================================================================================
