----------------------------------- MODULE SpatialRat -----------------------------------
(* The laws of C09 that need unit quaternions or divide, over exact rationals:            *)
(* orthogonality of the rotation matrix, to_local o do = id, inertia transport preserves  *)
(* kinetic energy, and the Euler / axis-angle / from-to constructors at rational points   *)
(* (half-angle pairs (c, s) with c^2 + s^2 = 1 rational).                                 *)
EXTENDS RatAlg, TLC, Randomization

CONSTANTS Families, NSample

VARIABLES fam, inp, res, done
vars == <<fam, inp, res, done>>

\* rational unit quaternions <<w, x, y, z, den>> (Pythagorean quadruples and Hurwitz units)
UQ == { <<1, 0, 0, 0, 1>>, <<3, 4, 0, 0, 5>>, <<0, 3, 0, 4, 5>>, <<1, 2, 2, 4, 5>>, <<2, -4, 1, 2, 5>>,
        <<1, 1, 1, 1, 2>>, <<1, -1, 1, -1, 2>>, <<0, 2, 3, 6, 7>>, <<6, 0, -2, 3, 7>>, <<1, 1, 7, 7, 10>>,
        <<1, 3, 3, 9, 10>>, <<5, 1, 1, 3, 6>>, <<0, 0, 0, 1, 1>>, <<12, 0, 5, 0, 13>>, <<2, 4, 5, 6, 9>> }
Quat(u) == <<RNorm(u[1], u[5]), RNorm(u[2], u[5]), RNorm(u[3], u[5]), RNorm(u[4], u[5])>>
\* rational unit vectors <<x, y, z, den>>
UV == { <<1, 0, 0, 1>>, <<0, 1, 0, 1>>, <<0, 0, -1, 1>>, <<3, 4, 0, 5>>, <<0, -3, 4, 5>>, <<2, 2, 1, 3>>,
        <<-2, 1, 2, 3>>, <<2, 3, 6, 7>>, <<6, -2, 3, 7>>, <<1, 4, 8, 9>>, <<-3, 0, -4, 5>>, <<4, 4, 7, 9>> }
Vec(u) == <<RNorm(u[1], u[4]), RNorm(u[2], u[4]), RNorm(u[3], u[4])>>
\* half-angle pairs <<c, s, den>>: angle = 2 atan2(s, c)
HA == { <<1, 0, 1>>, <<4, 3, 5>>, <<3, 4, 5>>, <<12, 5, 13>>, <<4, -3, 5>>, <<12, -5, 13>>, <<15, 8, 17>>, <<24, 7, 25>> }
Cs(h) == RNorm(h[1], h[3])
Sn(h) == RNorm(h[2], h[3])
Small == -2..2

IV(x, o) == <<x[o + 1], x[o + 2], x[o + 3]>>

Init ==
  /\ res = <<>> /\ done = FALSE
  /\ fam \in Families
  /\ \/ fam = "unit"    /\ \E u \in UQ, w \in UQ, x \in RandomSubset(NSample, [1..6 -> Small]) :
                             inp = [q |-> Quat(u), q2 |-> Quat(w), p |-> IV(x, 0), v |-> IV(x, 3)]
     \/ fam = "inertia" /\ \E u \in UQ, x \in RandomSubset(NSample, [1..16 -> Small]) :
                             inp = [q |-> Quat(u), p |-> IV(x, 0), w |-> IV(x, 3), v |-> IV(x, 6),
                                    ixx |-> x[10] + 3, iyy |-> x[11] + 4, izz |-> x[12] + 5,
                                    ixy |-> x[13], ixz |-> x[14], iyz |-> x[15], mass |-> x[16] + 3]
     \/ fam = "euler"   /\ \E h1 \in HA, h2 \in HA, h3 \in HA : inp = [h |-> <<h1, h2, h3>>]
     \/ fam = "axis"    /\ \E h \in HA, a \in UV : inp = [h |-> h, axis |-> Vec(a)]
     \/ fam = "fromto"  /\ \E a \in UV : \/ \E b \in UV : inp = [v1 |-> Vec(a), v2 |-> Vec(b)]
                                          \/ inp = [v1 |-> Vec(a), v2 |-> RVNeg(Vec(a))]     \* antiparallel

Qx(h) == <<Cs(h), Sn(h), RZero, RZero>>
Qy(h) == <<Cs(h), RZero, Sn(h), RZero>>
Qz(h) == <<Cs(h), RZero, RZero, Sn(h)>>

\* the closed form in brax.math.euler_to_quat (x-y'-z'' intrinsic), transcribed
EulerClosed(h) ==
  LET c1 == Cs(h[1]) c2 == Cs(h[2]) c3 == Cs(h[3]) s1 == Sn(h[1]) s2 == Sn(h[2]) s3 == Sn(h[3])
  IN  << RSub(RMul(RMul(c1, c2), c3), RMul(RMul(s1, s2), s3)),
         RAdd(RMul(RMul(s1, c2), c3), RMul(RMul(c1, s2), s3)),
         RSub(RMul(RMul(c1, s2), c3), RMul(RMul(s1, c2), s3)),
         RAdd(RMul(RMul(c1, c2), s3), RMul(RMul(s1, s2), c3)) >>

IMat == << <<R(inp.ixx), R(inp.ixy), R(inp.ixz)>>, <<R(inp.ixy), R(inp.iyy), R(inp.iyz)>>,
           <<R(inp.ixz), R(inp.iyz), R(inp.izz)>> >>

Compute ==
  /\ ~done /\ done' = TRUE
  /\ res' =
      CASE fam = "unit" ->
             LET t == [pos |-> RV(inp.p), rot |-> inp.q]
                 b == [pos |-> RV(inp.v), rot |-> inp.q2]
                 m == RM3(inp.q)
             IN  [n2 |-> RQNorm2(inp.q), m3 |-> m, mmt |-> RMatMul(m, RMatT(m)),
                  rot |-> RRot(RV(inp.v), inp.q), mv |-> RMatVec(m, RV(inp.v)),
                  back |-> RRot(RRot(RV(inp.v), inp.q), RQConj(inp.q)),
                  tb |-> RTDo(t, b), loc |-> RTToLocal(RTDo(t, b), t), b |-> b]
        [] fam = "inertia" ->
             LET Rm == RM3(inp.q)
                 p  == RV(inp.p)
                 ms == R(inp.mass)
                 \* parallel-axis term  m (|p|^2 I - p p^T)
                 pa == [i \in 1..3 |-> [j \in 1..3 |->
                          RMul(ms, RSub(IF i = j THEN RVDot(p, p) ELSE RZero, RMul(p[i], p[j])))]]
                 i1 == RMatAdd(RMatMul(RMatMul(Rm, IMat), RMatT(Rm)), pa)     \* R I R^T + m (..)
                 h  == RVScale(ms, p)                                          \* first moment
                 wL == RV(inp.w) vL == RV(inp.v)
                 wW == RRot(wL, inp.q)                                         \* motion moved out of the frame
                 vW == RVAdd(RRot(vL, inp.q), RVCross(p, wW))
                 fa == RVAdd(RMatVec(i1, wW), RVCross(h, vW))                  \* I'.mul(m_W)
                 fv == RVSub(RVScale(ms, vW), RVCross(h, wW))
                 keL == RAdd(RVDot(wL, RMatVec(IMat, wL)), RMul(ms, RVDot(vL, vL)))
                 keW == RAdd(RVDot(wW, fa), RVDot(vW, fv))
             IN  [i1 |-> i1, h |-> h, wW |-> wW, vW |-> vW, fa |-> fa, fv |-> fv, keL |-> keL, keW |-> keW,
                  fLa |-> RMatVec(IMat, wL), fLv |-> RVScale(ms, vL)]
        [] fam = "euler" ->
             [q |-> RQMul(RQMul(Qx(inp.h[1]), Qy(inp.h[2])), Qz(inp.h[3])), closed |-> EulerClosed(inp.h)]
        [] fam = "axis" ->
             [q |-> <<Cs(inp.h), RMul(Sn(inp.h), inp.axis[1]), RMul(Sn(inp.h), inp.axis[2]), RMul(Sn(inp.h), inp.axis[3])>>,
              rotaxis |-> RRot(inp.axis, <<Cs(inp.h), RMul(Sn(inp.h), inp.axis[1]), RMul(Sn(inp.h), inp.axis[2]),
                                           RMul(Sn(inp.h), inp.axis[3])>>)]
        [] fam = "fromto" ->
             LET d == <<RAdd(ROne, RVDot(inp.v1, inp.v2)), RVCross(inp.v1, inp.v2)[1], RVCross(inp.v1, inp.v2)[2],
                        RVCross(inp.v1, inp.v2)[3]>>
             IN  [d |-> d, d2 |-> RQNorm2(d), rot |-> RRot(inp.v1, d)]
  /\ UNCHANGED <<fam, inp>>

Next == Compute
Spec == Init /\ [][Next]_vars

-------------------------------------------------------------------------------------
Done(f) == fam = f /\ done
UnitQuaternions == Done("unit") => res.n2 = ROne
RotationOrthogonal == Done("unit") => res.mmt = RMatId /\ res.rot = res.mv /\ res.back = RV(inp.v)
ToLocalInvertsDo == Done("unit") => res.loc = res.b
InertiaTransportPreservesEnergy == Done("inertia") => res.keL = res.keW
EulerIsAxisProduct == Done("euler") => res.q = res.closed /\ RQNorm2(res.q) = ROne
AxisAngle == Done("axis") => RQNorm2(res.q) = ROne /\ res.rotaxis = inp.axis
\* the un-normalised from-to quaternion d = (1 + v1.v2, v1 x v2) takes v1 to |d|^2 v2
FromToRotates == Done("fromto") => res.rot = RVScale(res.d2, inp.v2)
=====================================================================================
