-------------------------------------- MODULE Contact --------------------------------------
(* Closed-form contact geometry of primitive pairs: a ground plane (z = 0, normal +z) plus  *)
(* 2-3 free links, each owning 1-2 sphere / capsule geoms at a rational local pose.          *)
(* For every pair of geoms on different bodies the specification gives                        *)
(*   plane pairs      : the signed distance itself (rational)                                 *)
(*   curved pairs     : D2 = squared distance between centres / closest segment points and   *)
(*                      rsum = r1 + r2, so that (dist + rsum)^2 = D2                          *)
(*   normal direction : p2 - p1 (un-normalised), from the first geom to the second           *)
(*   owners (world = -1) and the mean elasticity.                                             *)
EXTENDS RatAlg, TLC, Prng

CONSTANTS NScenes, SeedBase

VARIABLES scene, out, phase
vars == <<scene, out, phase>>

Q5(a, b, c, d) == <<RNorm(a, 5), RNorm(b, 5), RNorm(c, 5), RNorm(d, 5)>>
H(a, b, c, d) == <<RNorm(a, 2), RNorm(b, 2), RNorm(c, 2), RNorm(d, 2)>>
\* entries 1-5 have denominator <= 2 (they permute / flip coordinate axes), 6-8 are genuine /5 rotations
QuatTable == << RQId, H(1, 1, 1, 1), H(1, -1, 1, -1), <<RZero, ROne, RZero, RZero>>, H(1, 1, -1, 1),
                Q5(3, 4, 0, 0), Q5(4, 0, -3, 0), Q5(1, 2, 2, 4) >>
\* 32-bit budget: a link that owns a capsule uses entries 1-5 only; a capsule's local rotation uses 1-6, and the
\* /5 entry only on the first geom of the first link; spheres take anything
Radii == << RNorm(1, 5), RNorm(2, 5), RNorm(3, 10), RNorm(1, 10) >>
Halfs == << RNorm(1, 5), RNorm(2, 5), RNorm(1, 2) >>
Z == <<RZero, RZero, ROne>>

GL == 20       \* genes per link
DecodeGeom(g, o, k) ==     \* geom k (1 or 2) of the link whose genes start at o
  LET b == o + 6 + (k - 1) * 7 IN
  [type  |-> IF g[b + 1] % 2 = 0 THEN "S" ELSE "C",
   r     |-> Radii[(g[b + 2] % 4) + 1],
   hl    |-> Halfs[(g[b + 3] % 3) + 1],
   lpos  |-> <<RNorm(g[b + 4] - 5, 10), RNorm(g[b + 5] - 6, 10), RNorm(((g[b + 4] + g[b + 5]) % 5) - 2, 10)>>,
   lquat |-> IF o = 0 /\ k = 1 /\ g[b + 1] % 2 = 1 THEN QuatTable[(g[b + 6] % 8) + 1] ELSE QuatTable[(g[b + 6] % 5) + 1],
   elast |-> RNorm(g[b + 7] % 10, 10)]
DecodeLink(g, i) ==
  LET o == (i - 1) * GL IN
  [pos   |-> <<RNorm(g[o + 1] - 5, 5), RNorm(g[o + 2] - 5, 5), RNorm(g[o + 3] + 1, 5)>>,   \* height 0.2 .. 2.4
   \* at most ONE genuine /5 rotation per scene: link 1's own rotation when it carries only spheres, or the local
   \* rotation of link 1's first geom when that is a capsule
   quat  |-> IF i = 1 /\ \A k \in 1..((g[o + 5] % 2) + 1) : g[o + 6 + (k - 1) * 7 + 1] % 2 = 0
               THEN QuatTable[(g[o + 4] % 8) + 1] ELSE QuatTable[(g[o + 4] % 5) + 1],
   geoms |-> [k \in 1..((g[o + 5] % 2) + 1) |-> DecodeGeom(g, o, k)]]
\* the ground plane is a geom of the world body and may itself sit at a local pose (offset and tilt)
PlanePoses == << [pos |-> RVZero, quat |-> RQId],
                 [pos |-> <<RNorm(1, 10), RNorm(-1, 5), RNorm(3, 10)>>, quat |-> RQId],
                 [pos |-> <<RZero, RZero, RNorm(-1, 5)>>, quat |-> <<RNorm(12, 13), RNorm(5, 13), RZero, RZero>>],
                 [pos |-> <<RNorm(1, 5), RZero, RNorm(1, 10)>>, quat |-> H(1, 1, 1, 1)],
                 [pos |-> RVZero, quat |-> RQId], [pos |-> RVZero, quat |-> RQId] >>
DecodeScene(g, n) == [links |-> [i \in 1..n |-> DecodeLink(g, i)], pelast |-> RNorm(g[n * GL + 1] % 10, 10),
                      plane |-> PlanePoses[(g[n * GL + 2] % 6) + 1]]

\* ---- world geometry
Centre(l, gm) == RVAdd(l.pos, RRot(gm.lpos, l.quat))
Axis(l, gm) == RRot(RRot(Z, gm.lquat), l.quat)
EndA(l, gm) == RVSub(Centre(l, gm), RVScale(gm.hl, Axis(l, gm)))
EndB(l, gm) == RVAdd(Centre(l, gm), RVScale(gm.hl, Axis(l, gm)))

Clamp01(t) == RMax(RZero, RMin(ROne, t))

\* closest point to c on segment a-b
ClosestOnSeg(c, a, b) ==
  LET d == RVSub(b, a)
      t == Clamp01(RDiv(RVDot(RVSub(c, a), d), RVDot(d, d)))
  IN  RVAdd(a, RVScale(t, d))

\* closest points between segments p1-q1 and p2-q2 (non-degenerate), the classic clamped case analysis
ClosestSegSeg(p1, q1, p2, q2) ==
  LET d1 == RVSub(q1, p1) d2 == RVSub(q2, p2) r == RVSub(p1, p2)
      a == RVDot(d1, d1) e == RVDot(d2, d2) f == RVDot(d2, r)
      c == RVDot(d1, r) b == RVDot(d1, d2)
      den == RSub(RMul(a, e), RMul(b, b))
      s0 == IF den = RZero THEN RZero ELSE Clamp01(RDiv(RSub(RMul(b, f), RMul(c, e)), den))
      t0 == RDiv(RAdd(RMul(b, s0), f), e)
      \* clamp t, then recompute s for the clamped t
      t1 == Clamp01(t0)
      s1 == IF RLt(t0, RZero) THEN Clamp01(RDiv(RNeg(c), a))
            ELSE IF RLt(ROne, t0) THEN Clamp01(RDiv(RSub(b, c), a)) ELSE s0
      branch == IF den = RZero THEN "parallel" ELSE IF RLt(t0, RZero) THEN "t<0" ELSE IF RLt(ROne, t0) THEN "t>1"
                ELSE IF s0 = RZero \/ s0 = ROne THEN "s-clamped" ELSE "interior"
  IN  <<RVAdd(p1, RVScale(s1, d1)), RVAdd(p2, RVScale(t1, d2)), branch>>

Norm2(v) == RVDot(v, v)

\* flat geom list in document order: geom 0 is the plane; entry = <<link index (0 = world), geom record>>
RECURSIVE GeomList(_, _)
GeomList(sc, i) == IF i = 0 THEN <<>>
                   ELSE GeomList(sc, i - 1) \o [k \in 1..Len(sc.links[i].geoms) |-> <<i, sc.links[i].geoms[k]>>]

PlaneNormal(sc) == RRot(Z, sc.plane.quat)
Height(sc, p) == RVDot(PlaneNormal(sc), RVSub(p, sc.plane.pos))          \* signed height of a point above the plane
PairPlane(sc, e) ==      \* plane (geom 1 of the pair) vs a sphere or capsule
  LET l == sc.links[e[1]] gm == e[2] IN
  IF gm.type = "S"
    THEN << [kind |-> "plane-sphere", dist |-> RSub(Height(sc, Centre(l, gm)), gm.r)] >>
    ELSE << [kind |-> "plane-capsule", dist |-> RSub(Height(sc, EndA(l, gm)), gm.r)],
            [kind |-> "plane-capsule", dist |-> RSub(Height(sc, EndB(l, gm)), gm.r)] >>

PairCurved(sc, e1, e2) ==
  LET l1 == sc.links[e1[1]] g1 == e1[2] l2 == sc.links[e2[1]] g2 == e2[2]
      pts == IF g1.type = "S" /\ g2.type = "S" THEN <<Centre(l1, g1), Centre(l2, g2), "ss">>
             ELSE IF g1.type = "S" THEN <<Centre(l1, g1), ClosestOnSeg(Centre(l1, g1), EndA(l2, g2), EndB(l2, g2)), "sc">>
             ELSE IF g2.type = "S" THEN <<ClosestOnSeg(Centre(l2, g2), EndA(l1, g1), EndB(l1, g1)), Centre(l2, g2), "cs">>
             ELSE ClosestSegSeg(EndA(l1, g1), EndB(l1, g1), EndA(l2, g2), EndB(l2, g2))
  IN  [kind |-> g1.type \o g2.type, d2 |-> Norm2(RVSub(pts[2], pts[1])), rsum |-> RAdd(g1.r, g2.r),
       dir |-> RVSub(pts[2], pts[1]), branch |-> pts[3]]

Init ==
  /\ phase = "init" /\ out = <<>>
  /\ \E n \in 2..3 : \E k \in 1..NScenes : scene = DecodeScene(Gen(SeedBase + 3 * k + n, n * GL + 2), n)

Compute ==
  /\ phase = "init" /\ phase' = "done"
  /\ LET gl == GeomList(scene, Len(scene.links))
         ng == Len(gl)
     IN  out' = [ngeom |-> ng,
                 owner |-> [k \in 1..ng |-> gl[k][1] - 1],                       \* link index, 0-based
                 elast |-> [k \in 1..ng |-> gl[k][2].elast],
                 pnormal |-> PlaneNormal(scene),
                 plane |-> [k \in 1..ng |-> PairPlane(scene, gl[k])],
                 \* curved pairs for geoms on different links, both orders (the implementation picks one)
                 pair  |-> [a \in 1..ng |-> [b \in 1..ng |->
                             IF gl[a][1] # gl[b][1] THEN PairCurved(scene, gl[a], gl[b]) ELSE [kind |-> "same-body"]]]]
  /\ UNCHANGED scene

Next == Compute
Spec == Init /\ [][Next]_vars

-------------------------------------------------------------------------------------
Done == phase = "done"
\* the squared distance is symmetric and the direction antisymmetric under swapping the geoms
Symmetric == Done => \A a, b \in 1..out.ngeom :
               out.pair[a][b].kind # "same-body" =>
                 /\ out.pair[a][b].d2 = out.pair[b][a].d2
                 /\ out.pair[a][b].dir = RVNeg(out.pair[b][a].dir)
\* the closest points are no farther apart than the centres
NoFartherThanCentres == Done => \A a, b \in 1..out.ngeom :
               out.pair[a][b].kind # "same-body" =>
                 LET gl == GeomList(scene, Len(scene.links))
                     c1 == Centre(scene.links[gl[a][1]], gl[a][2]) c2 == Centre(scene.links[gl[b][1]], gl[b][2])
                 IN  RLe(out.pair[a][b].d2, Norm2(RVSub(c2, c1)))
=====================================================================================
