------------------------------------- MODULE MjcfLoad -------------------------------------
(* What `mjcf.loads` + `pipeline.init` must decide and produce for a ModelSpace model that   *)
(* is either clean or has exactly ONE unsupported feature injected at ONE eligible element.  *)
(*   Rejects    : the decision table of the property                                          *)
(*   Structure  : coordinate counts, per-link joint types, parents, actuator indices, init_q  *)
EXTENDS ModelSpace

CONSTANTS MaxLinks, NModels, OnlyClean

VARIABLES model, acts, inj, expect
vars == <<model, acts, inj, expect>>

Kinds == { "none", "integrator", "cone", "wind", "fluidshape", "impratio", "transmission", "gaintype", "biastype",
           "jointinparent", "ref", "ball", "ball_stacked", "ball_range", "free_stiffness", "solmix", "priority", "cylinder",
           "cylinder_affinity_only", "anchors" }

\* actuated joints: every (link, joint index) with joints
JointSites(m) == {<<i, j>> : i \in 1..NLinks(m), j \in 1..3} \cap
                 {<<i, j>> \in (1..NLinks(m)) \X (1..3) : m.links[i].root = "joints" /\ j <= Len(m.links[i].stack)}
GeomSites(m) == {i \in 1..NLinks(m) : m.links[i].geom # 0}
FreeSites(m) == {i \in 1..NLinks(m) : m.links[i].root = "free"}
StackSites(m) == {i \in 1..NLinks(m) : m.links[i].root = "joints" /\ Len(m.links[i].stack) >= 2}
JointedLinks(m) == {i \in 1..NLinks(m) : m.links[i].root = "joints"}

\* eligible sites per kind (0 = a global option)
Sites(m, a, k) ==
  CASE k \in {"none", "integrator", "cone", "wind", "impratio"} -> {0}
    [] k \in {"fluidshape", "cylinder", "cylinder_affinity_only"} -> GeomSites(m)
    \* "mixed" needs a second geom to differ from; the site may or may not be the first geom
    [] k \in {"solmix", "priority"} -> IF Cardinality(GeomSites(m)) >= 2 THEN GeomSites(m) ELSE {}
    [] k \in {"transmission"} -> 1..NLinks(m)
    [] k \in {"gaintype", "biastype"} -> 1..Len(a)
    [] k \in {"ref", "jointinparent"} -> JointSites(m)     \* jointinparent: an extra actuator with that transmission on the joint
    [] k \in {"ball", "ball_range"} -> 1..NLinks(m)              \* the link's joints are replaced by one ball joint
    [] k = "ball_stacked" -> JointedLinks(m)                      \* a ball joint added to the stack
    [] k = "free_stiffness" -> FreeSites(m)
    [] k = "anchors" -> StackSites(m)

\* a few actuators on the model's joints (several per joint possible), decoded from extra genes
ActsOf(m, ag) ==
  LET jl == SitesSeq(m, NLinks(m))
      n  == IF jl = <<>> THEN 0 ELSE (ag[1] % 4)
  IN  [k \in 1..n |-> [kind |-> <<"motor", "position", "velocity">>[(ag[1 + k] % 3) + 1],
                       site |-> jl[(ag[5 + k] % Len(jl)) + 1]]]

\* ---- expected structure of the loaded system
LinkTypes(m) == [i \in 1..NLinks(m) |-> LinkType(m.links[i])]
Parents(m) == [i \in 1..NLinks(m) |-> m.links[i].parent - 1]
QId(m, s) == QStart(m, s[1]) + s[2] - 1
QdId(m, s) == DStart(m, s[1]) + s[2] - 1
Structure(m, a) == [nq |-> NQ(m), nv |-> NV(m), types |-> LinkTypes(m), parents |-> Parents(m),
                    qid |-> [k \in 1..Len(a) |-> QId(m, a[k].site)], qdid |-> [k \in 1..Len(a) |-> QdId(m, a[k].site)]]

Rejects(i) == i.kind # "none"

Init ==
  /\ \E n \in 1..MaxLinks : \E g \in GenomesK(NModels, n * GW + 10) :
       /\ model = DecodeModel(g, n)
       /\ acts = ActsOf(model, [k \in 1..10 |-> g[n * GW + k]])
  /\ \E k \in (IF OnlyClean THEN {"none"} ELSE Kinds) : \E s \in Sites(model, acts, k) : inj = [kind |-> k, site |-> s]
  /\ expect = [reject |-> Rejects(inj), structure |-> Structure(model, acts)]

Next == UNCHANGED vars
Spec == Init /\ [][Next]_vars

-------------------------------------------------------------------------------------
ModelWellFormed == WellFormed(model)
\* sizes add up by the per-type widths; actuator indices fall inside the actuated link's range; q and qd indices
\* differ exactly by the number of free joints before the link
StructureConsistent ==
  /\ expect.structure.nq - expect.structure.nv = Cardinality(FreeSites(model))
  /\ \A k \in 1..Len(acts) :
       LET i == acts[k].site[1] IN
       /\ expect.structure.qdid[k] >= DStart(model, i) /\ expect.structure.qdid[k] < DStart(model, i) + DWidth(model.links[i])
       /\ expect.structure.qid[k] - expect.structure.qdid[k] = Cardinality({f \in FreeSites(model) : f < i})
  /\ \A i \in 1..NLinks(model) : expect.structure.parents[i] < i - 1
DecisionTable == expect.reject = (inj.kind # "none")
=====================================================================================
