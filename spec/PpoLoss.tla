-------------------------------------- MODULE PpoLoss --------------------------------------
(* brax/training/agents/ppo/losses.py compute_ppo_loss on a [B, T] batch of transitions, as a    *)
(* staged computation over exact rationals (coverage beyond the listed properties).              *)
(*   stage "gae"   : termination = (1 - discount)(1 - truncation); reverse scan per column       *)
(*                   (the scan Gae.tla proves equal to the defining sums)                         *)
(*   stage "terms" : rho = pi(a|s) / pi_behaviour(a|s);                                           *)
(*                   term = min(rho A, clip(rho, 1 - eps, 1 + eps) A)                             *)
(*   stage "loss"  : policy = -mean(term); v = mean((vs - V)^2) / 4; entropy = -cost mean(H)      *)
(* Advantage normalisation is off (its standard deviation is irrational).  The final state is     *)
(* replayed into the real function through stub networks; d loss / d log pi per sample too.       *)
EXTENDS Rat, Sequences, TLC, Prng

CONSTANTS NCases, SeedBase

VARIABLES cfg,      \* [T, B, lam, gam, eps, scale, cost]
          cols,     \* [1..B -> [disc, trunc, r, V, boot, rho, ent : sequences of length T (boot a scalar)]]
          phase, vs, adv, term, out
vars == <<cfg, cols, phase, vs, adv, term, out>>

Coef == <<RZero, RNorm(1, 2), ROne, RNorm(1, 2), RNorm(3, 4)>>     \* (the last one only for T <= 3: 32-bit budget of the exact sums)
Eps == <<RNorm(1, 4), RNorm(1, 5), RNorm(1, 2), RNorm(3, 10)>>
Rho == <<RNorm(1, 2), RNorm(3, 4), RNorm(4, 5), ROne, RNorm(6, 5), RNorm(5, 4), RNorm(3, 2), R(2), RNorm(7, 10), RNorm(13, 10)>>
Mask == <<<<1, 0>>, <<1, 0>>, <<0, 0>>, <<0, 1>>>>       \* <<discount, truncation>>: running (twice as likely), terminated, truncated

Init ==
  /\ \E k \in 1..NCases :
       LET h == GenV(SeedBase + k, 8, 60)
           T == <<1, 2, 3, 4, 3>>[(h[1] % 5) + 1]
           B == <<1, 2, 2>>[(h[2] % 3) + 1]
           nc == IF T <= 3 THEN 5 ELSE 4
       IN  /\ cfg = [T |-> T, B |-> B, lam |-> Coef[(h[3] % nc) + 1], gam |-> Coef[(h[4] % nc) + 1], eps |-> Eps[(h[5] % 4) + 1],
                     scale |-> <<ROne, R(2), ROne>>[(h[6] % 3) + 1], cost |-> <<RZero, RNorm(1, 4), ROne>>[(h[7] % 3) + 1]]
           /\ cols = [c \in 1..B |->
                LET g == GenV(SeedBase + 1000 * c + k, 6 * T + 1, 120) IN
                [disc  |-> [t \in 1..T |-> Mask[(g[t] % 4) + 1][1]],
                 trunc |-> [t \in 1..T |-> Mask[(g[t] % 4) + 1][2]],
                 r     |-> [t \in 1..T |-> R((g[T + t] % 5) - 2)],
                 V     |-> [t \in 1..T |-> R((g[2 * T + t] % 5) - 2)],
                 rho   |-> [t \in 1..T |-> Rho[(g[3 * T + t] % 10) + 1]],
                 ent   |-> [t \in 1..T |-> R((g[4 * T + t] % 4) - 1)],
                 boot  |-> R((g[6 * T + 1] % 5) - 2)]]
  /\ phase = "gae" /\ vs = <<>> /\ adv = <<>> /\ term = <<>> /\ out = <<>>

T == cfg.T
B == cfg.B
N == T * B
Termination(c, t) == (1 - cols[c].disc[t]) * (1 - cols[c].trunc[t])
Rw(c, t) == RMul(cols[c].r[t], cfg.scale)
Vnext(c, t) == IF t = T THEN cols[c].boot ELSE cols[c].V[t + 1]
Delta(c, t) == RMul(RSub(RAdd(Rw(c, t), RMul(RMul(cfg.gam, R(1 - Termination(c, t))), Vnext(c, t))), cols[c].V[t]),
                    R(1 - cols[c].trunc[t]))
RECURSIVE Acc(_, _)
Acc(c, t) == IF t > T THEN RZero
             ELSE RAdd(Delta(c, t), RMul(RMul(RMul(RMul(cfg.gam, R(1 - Termination(c, t))), R(1 - cols[c].trunc[t])), cfg.lam),
                                         Acc(c, t + 1)))

Gae ==
  /\ phase = "gae" /\ phase' = "terms"
  /\ vs' = [c \in 1..B |-> [t \in 1..T |-> RAdd(Acc(c, t), cols[c].V[t])]]
  /\ adv' = [c \in 1..B |-> [t \in 1..T |->
               LET nxt == IF t = T THEN cols[c].boot ELSE vs'[c][t + 1] IN
               RMul(RSub(RAdd(Rw(c, t), RMul(RMul(cfg.gam, R(1 - Termination(c, t))), nxt)), cols[c].V[t]),
                    R(1 - cols[c].trunc[t]))]]
  /\ UNCHANGED <<cfg, cols, term, out>>

Lo == RSub(ROne, cfg.eps)
Hi == RAdd(ROne, cfg.eps)
Clip(x) == RMax(Lo, RMin(x, Hi))
Terms ==
  /\ phase = "terms" /\ phase' = "loss"
  /\ term' = [c \in 1..B |-> [t \in 1..T |-> RMin(RMul(cols[c].rho[t], adv[c][t]), RMul(Clip(cols[c].rho[t]), adv[c][t]))]]
  /\ UNCHANGED <<cfg, cols, vs, adv, out>>

SumAll(f(_, _)) == LET RECURSIVE S(_) S(i) == IF i = 0 THEN RZero ELSE RAdd(S(i - 1), f(((i - 1) \div T) + 1, ((i - 1) % T) + 1)) IN S(N)
Mean(f(_, _)) == RDiv(SumAll(f), R(N))
\* d policy_loss / d log pi(a_t | s_t):  -rho A / N where the unclipped branch is the (strict) minimum or rho is strictly inside
\* the clip range, 0 where the clipped branch is the strict minimum; "tie" on the boundaries (not compared)
PolGrad(c, t) ==
  LET rho == cols[c].rho[t] a == adv[c][t] s1 == RMul(rho, a) s2 == RMul(Clip(rho), a) IN
  IF a = RZero THEN RZero
  ELSE IF rho = Lo \/ rho = Hi THEN <<0, 0>>                         \* boundary: subgradient not unique
  ELSE IF RLt(Lo, rho) /\ RLt(rho, Hi) THEN RNeg(RDiv(s1, R(N)))
  ELSE IF RLt(s1, s2) THEN RNeg(RDiv(s1, R(N))) ELSE RZero

Loss ==
  /\ phase = "loss" /\ phase' = "done"
  /\ LET TermAt(c, t) == term[c][t]
         VErr2(c, t) == RSq(RSub(vs[c][t], cols[c].V[t]))
         EntAt(c, t) == cols[c].ent[t]
         pol == RNeg(Mean(TermAt))
         v == RDiv(Mean(VErr2), R(4))
         ent == RNeg(RMul(cfg.cost, Mean(EntAt)))
     IN out' = [policy |-> pol, v |-> v, entropy |-> ent,            \* (total = their sum: added in floating point by the harness)
                grad |-> [c \in 1..B |-> [t \in 1..T |-> PolGrad(c, t)]],
                \* targets and advantages are constants of the optimisation (stop_gradient): the value estimate of a sample
                \* receives gradient only from its own squared error, the bootstrap value none at all
                vgrad |-> [c \in 1..B |-> [t \in 1..T |-> RNeg(RDiv(RSub(vs[c][t], cols[c].V[t]), R(2 * N)))]]]
  /\ UNCHANGED <<cfg, cols, vs, adv, term>>

Next == Gae \/ Terms \/ Loss
Spec == Init /\ [][Next]_vars

-------------------------------------------------------------------------------------
HasTerms == phase \in {"loss", "done"}
\* the clipped objective never promises more than the unclipped one
Pessimistic == HasTerms => \A c \in 1..B, t \in 1..T : RLe(term[c][t], RMul(cols[c].rho[t], adv[c][t]))
\* once the ratio has left the trust region in the direction the advantage favours, the objective no longer depends on it
NoIncentiveBeyondClip == HasTerms => \A c \in 1..B, t \in 1..T :
  /\ (RLt(RZero, adv[c][t]) /\ RLe(Hi, cols[c].rho[t])) => term[c][t] = RMul(Hi, adv[c][t])
  /\ (RLt(adv[c][t], RZero) /\ RLe(cols[c].rho[t], Lo)) => term[c][t] = RMul(Lo, adv[c][t])
\* ... and inside the region, or when it moved the wrong way, it is the plain importance-weighted advantage
PlainInsideOrWrongWay == HasTerms => \A c \in 1..B, t \in 1..T :
  (RLe(Lo, cols[c].rho[t]) /\ RLe(cols[c].rho[t], Hi)) => term[c][t] = RMul(cols[c].rho[t], adv[c][t])
\* a truncated step teaches nothing: no advantage, no value error
TruncatedStepsSilent == HasTerms => \A c \in 1..B, t \in 1..T :
  cols[c].trunc[t] = 1 => (term[c][t] = RZero /\ vs[c][t] = cols[c].V[t])
\* a terminated step does not bootstrap
TerminationCutsBootstrap == HasTerms => \A c \in 1..B, t \in 1..T :
  (cols[c].disc[t] = 0 /\ cols[c].trunc[t] = 0) => vs[c][t] = Rw(c, t)
VLossNonNegative == phase = "done" => RLe(RZero, out.v)
Done == phase = "done"
=====================================================================================
