----------------------------------- MODULE Dyadic -----------------------------------
(* Exact dyadic rationals <<m, e>> = m / 2^e, normalised (e = 0 or m odd).  All values *)
(* are exactly representable in binary floating point, so the implementation can be    *)
(* compared bit-exactly.  TLC integers are 32-bit and overflow is an error, not a wrap.*)
EXTENDS Integers

RECURSIVE DNorm(_, _)
DNorm(m, e) == IF e > 0 /\ m % 2 = 0 THEN DNorm(m \div 2, e - 1) ELSE <<m, e>>

D(n) == <<n, 0>>
DHalf(n) == DNorm(n, 1)            \* n / 2
DQuarter(n) == DNorm(n, 2)         \* n / 4
DAdd(a, b) == IF a[2] >= b[2] THEN DNorm(a[1] + b[1] * 2 ^ (a[2] - b[2]), a[2])
                              ELSE DNorm(a[1] * 2 ^ (b[2] - a[2]) + b[1], b[2])
DNeg(a) == <<-a[1], a[2]>>
DSub(a, b) == DAdd(a, DNeg(b))
DMul(a, b) == DNorm(a[1] * b[1], a[2] + b[2])
DZero == <<0, 0>>
DOne == <<1, 0>>
=====================================================================================
