------------------------------------- MODULE Rat -------------------------------------
(* Exact rationals <<n, d>>, d > 0, gcd(n, d) = 1.  TLC integers are 32-bit; overflow  *)
(* is raised as an error (never wraps), so a too-large intermediate stops the run.     *)
EXTENDS Integers

Abs(x) == IF x < 0 THEN -x ELSE x
RECURSIVE Gcd(_, _)
Gcd(a, b) == IF b = 0 THEN a ELSE Gcd(b, a % b)

RNorm(n, d) == LET s == IF d < 0 THEN -1 ELSE 1
                   g == Gcd(Abs(n), Abs(d))
               IN  IF n = 0 THEN <<0, 1>> ELSE <<(s * n) \div g, (s * d) \div g>>
R(n) == <<n, 1>>
RZero == <<0, 1>>
ROne == <<1, 1>>
RNeg(a) == <<-a[1], a[2]>>
\* addition through the lcm keeps intermediates small
RAdd(a, b) == LET g == Gcd(a[2], b[2])
              IN  RNorm(a[1] * (b[2] \div g) + b[1] * (a[2] \div g), (a[2] \div g) * b[2])
RSub(a, b) == RAdd(a, RNeg(b))
\* multiplication with cross-cancellation
RMul(a, b) == LET g1 == Gcd(Abs(a[1]), b[2])
                  g2 == Gcd(Abs(b[1]), a[2])
              IN  IF a[1] = 0 \/ b[1] = 0 THEN RZero
                  ELSE <<(a[1] \div g1) * (b[1] \div g2), (a[2] \div g2) * (b[2] \div g1)>>
RInv(a) == IF a[1] > 0 THEN <<a[2], a[1]>> ELSE <<-a[2], -a[1]>>
RDiv(a, b) == RMul(a, RInv(b))
RLt(a, b) == a[1] * b[2] < b[1] * a[2]
RLe(a, b) == a[1] * b[2] <= b[1] * a[2]
RMax(a, b) == IF RLt(a, b) THEN b ELSE a
RMin(a, b) == IF RLt(a, b) THEN a ELSE b
RSq(a) == RMul(a, a)
IsRat(a) == a[2] > 0 /\ Gcd(Abs(a[1]), a[2]) = 1
=====================================================================================
