-------------------------------------- MODULE Prng --------------------------------------
(* Deterministic pseudo-random genomes.  TLC's RandomSubset draws from a huge function set *)
(* [1..K -> S] through a 64-bit index, so only the first few coordinates vary; the model    *)
(* generators therefore derive every gene from an integer seed with three small congruential*)
(* generators (two Wichmann-Hill components and a full-period power-of-two LCG), all within *)
(* 32-bit arithmetic.  Genome k of a run is Gen(SeedBase + k, K): reproducible from the     *)
(* (SeedBase, k) pair alone.                                                                *)
EXTENDS Integers, Sequences

RECURSIVE GenFrom(_, _, _, _, _, _)
GenFrom(i, K, x, y, z, V) ==
  IF i > K THEN <<>>
  ELSE <<((x \div 16) + y + z) % V>> \o
       GenFrom(i + 1, K, (1105 * x + 12345) % 32768, (171 * y) % 30269, (172 * z) % 30307, V)

\* K genes in 0..V-1 from an integer seed
GenV(seed, K, V) == GenFrom(1, K, (seed * 7 + 1) % 32768, 1 + ((seed * 13) % 30268), 1 + ((seed * 29) % 30306), V)
Gen(seed, K) == GenV(seed, K, 12)
=====================================================================================
