------------------------------------ MODULE IntAlg ------------------------------------
(* Vectors, quaternions and spatial vectors over the integers: the textbook            *)
(* definitions (Hamilton product, sandwich product, spatial cross products).           *)
(* Vectors are <<x, y, z>>, quaternions <<w, x, y, z>>.                                 *)
EXTENDS Integers, Sequences

VAdd(a, b) == <<a[1] + b[1], a[2] + b[2], a[3] + b[3]>>
VSub(a, b) == <<a[1] - b[1], a[2] - b[2], a[3] - b[3]>>
VNeg(a) == <<-a[1], -a[2], -a[3]>>
VScale(k, a) == <<k * a[1], k * a[2], k * a[3]>>
VDot(a, b) == a[1] * b[1] + a[2] * b[2] + a[3] * b[3]
VCross(a, b) == <<a[2] * b[3] - a[3] * b[2], a[3] * b[1] - a[1] * b[3], a[1] * b[2] - a[2] * b[1]>>

\* Hamilton product
QMul(p, q) == << p[1] * q[1] - p[2] * q[2] - p[3] * q[3] - p[4] * q[4],
                 p[1] * q[2] + p[2] * q[1] + p[3] * q[4] - p[4] * q[3],
                 p[1] * q[3] - p[2] * q[4] + p[3] * q[1] + p[4] * q[2],
                 p[1] * q[4] + p[2] * q[3] - p[3] * q[2] + p[4] * q[1] >>
QConj(q) == <<q[1], -q[2], -q[3], -q[4]>>
QNorm2(q) == q[1] * q[1] + q[2] * q[2] + q[3] * q[3] + q[4] * q[4]
QVec(q) == <<q[2], q[3], q[4]>>
QPure(v) == <<0, v[1], v[2], v[3]>>

\* sandwich product  q (0, v) q*  =  |q|^2 R(q) v   (the definition of rotating by q)
Rot(v, q) == QVec(QMul(QMul(q, QPure(v)), QConj(q)))

\* |q|^2 R(q) as a matrix (rows), from the columns Rot(e_i, q)
M3(q) == LET c1 == Rot(<<1, 0, 0>>, q) c2 == Rot(<<0, 1, 0>>, q) c3 == Rot(<<0, 0, 1>>, q)
         IN  << <<c1[1], c2[1], c3[1]>>, <<c1[2], c2[2], c3[2]>>, <<c1[3], c2[3], c3[3]>> >>
MatVec(m, v) == <<VDot(m[1], v), VDot(m[2], v), VDot(m[3], v)>>

\* Transform = [pos, rot]; composition "apply self after t" (Transform.do on a Transform)
TDo(self, t) == [pos |-> VAdd(self.pos, Rot(t.pos, self.rot)), rot |-> QMul(self.rot, t.rot)]
TIdentity == [pos |-> <<0, 0, 0>>, rot |-> <<1, 0, 0, 0>>]
\* express `a` in the basis of `t` (Transform.to_local)
TToLocal(a, t) == [pos |-> Rot(VSub(a.pos, t.pos), QConj(t.rot)), rot |-> QMul(QConj(t.rot), a.rot)]

\* Motion = [ang, vel], Force = [ang, vel]
\* move a motion INTO frame t:   R^T w ,  R^T (v - p x w)
MDo(t, m) == [ang |-> Rot(m.ang, QConj(t.rot)), vel |-> Rot(VSub(m.vel, VCross(t.pos, m.ang)), QConj(t.rot))]
\* move a motion OUT of frame t: R w , R v + p x (R w)
MInvDo(t, m) == LET a == Rot(m.ang, t.rot) IN [ang |-> a, vel |-> VAdd(Rot(m.vel, t.rot), VCross(t.pos, a))]
\* move a force OUT of frame t:  R f , R tau + p x (R f)
FDo(t, f) == LET v == Rot(f.vel, t.rot) IN [ang |-> VAdd(Rot(f.ang, t.rot), VCross(t.pos, v)), vel |-> v]
MDot(a, b) == VDot(a.vel, b.vel) + VDot(a.ang, b.ang)
\* spatial cross products  (self x other)
MCrossM(s, m) == [ang |-> VCross(s.ang, m.ang), vel |-> VAdd(VCross(s.ang, m.vel), VCross(s.vel, m.ang))]
MCrossF(s, f) == [ang |-> VAdd(VCross(s.ang, f.ang), VCross(s.vel, f.vel)), vel |-> VCross(s.ang, f.vel)]
=====================================================================================
