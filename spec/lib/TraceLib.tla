---------------------------------- MODULE TraceLib ----------------------------------
(* Batched trace validation: many recorded traces per TLC run (one JVM start).         *)
(* The trace file is a JSON array of traces, each an array of event objects.           *)
(* Register i holds the furthest event index reached in trace i; run with -workers 1.  *)
EXTENDS Naturals, Sequences, TLC, TLCExt, Json, IOUtils

Traces == JsonDeserialize(IOEnv.TRACE_FILE)
NT == Len(Traces)

InitRegs == \A i \in 1..NT : TLCSet(i, 0)

\* use as CONSTRAINT: always TRUE, records progress
Reached(tid, l) == TLCSet(tid, IF TLCGet(tid) < l THEN l ELSE TLCGet(tid))

\* use as POSTCONDITION: every trace consumed to its end
AllAccepted ==
  LET bad == {i \in 1..NT : TLCGet(i) # Len(Traces[i]) + 1}
  IN  IF bad = {} THEN TRUE
      ELSE PrintT(<<"REJECT", {<<i, TLCGet(i)>> : i \in bad}>>) /\ FALSE
=====================================================================================
