------------------------------------ MODULE RatAlg ------------------------------------
(* Vectors, quaternions, transforms and 3x3 matrices over exact rationals (Rat.tla).    *)
EXTENDS Rat, Sequences

RV(a) == <<R(a[1]), R(a[2]), R(a[3])>>                       \* integer vector -> rational vector
RVZero == <<RZero, RZero, RZero>>
RVAdd(a, b) == <<RAdd(a[1], b[1]), RAdd(a[2], b[2]), RAdd(a[3], b[3])>>
RVSub(a, b) == <<RSub(a[1], b[1]), RSub(a[2], b[2]), RSub(a[3], b[3])>>
RVNeg(a) == <<RNeg(a[1]), RNeg(a[2]), RNeg(a[3])>>
RVScale(k, a) == <<RMul(k, a[1]), RMul(k, a[2]), RMul(k, a[3])>>
RVDot(a, b) == RAdd(RAdd(RMul(a[1], b[1]), RMul(a[2], b[2])), RMul(a[3], b[3]))
RVCross(a, b) == << RSub(RMul(a[2], b[3]), RMul(a[3], b[2])),
                    RSub(RMul(a[3], b[1]), RMul(a[1], b[3])),
                    RSub(RMul(a[1], b[2]), RMul(a[2], b[1])) >>

RQ(q) == <<R(q[1]), R(q[2]), R(q[3]), R(q[4])>>
RQId == <<ROne, RZero, RZero, RZero>>
RQMul(p, q) ==
  << RSub(RSub(RSub(RMul(p[1], q[1]), RMul(p[2], q[2])), RMul(p[3], q[3])), RMul(p[4], q[4])),
     RSub(RAdd(RAdd(RMul(p[1], q[2]), RMul(p[2], q[1])), RMul(p[3], q[4])), RMul(p[4], q[3])),
     RAdd(RAdd(RSub(RMul(p[1], q[3]), RMul(p[2], q[4])), RMul(p[3], q[1])), RMul(p[4], q[2])),
     RAdd(RSub(RAdd(RMul(p[1], q[4]), RMul(p[2], q[3])), RMul(p[3], q[2])), RMul(p[4], q[1])) >>
RQConj(q) == <<q[1], RNeg(q[2]), RNeg(q[3]), RNeg(q[4])>>
RQNorm2(q) == RAdd(RAdd(RMul(q[1], q[1]), RMul(q[2], q[2])), RAdd(RMul(q[3], q[3]), RMul(q[4], q[4])))
RQScale(k, q) == <<RMul(k, q[1]), RMul(k, q[2]), RMul(k, q[3]), RMul(k, q[4])>>
RQVec(q) == <<q[2], q[3], q[4]>>
RQPure(v) == <<RZero, v[1], v[2], v[3]>>
\* q (0, v) q*  : for a unit quaternion the rotation of v
RRot(v, q) == RQVec(RQMul(RQMul(q, RQPure(v)), RQConj(q)))
\* rotation matrix of a unit quaternion (rows)
RM3(q) == LET c1 == RRot(<<ROne, RZero, RZero>>, q)
              c2 == RRot(<<RZero, ROne, RZero>>, q)
              c3 == RRot(<<RZero, RZero, ROne>>, q)
          IN  << <<c1[1], c2[1], c3[1]>>, <<c1[2], c2[2], c3[2]>>, <<c1[3], c2[3], c3[3]>> >>
RMatVec(m, v) == <<RVDot(m[1], v), RVDot(m[2], v), RVDot(m[3], v)>>
RMatT(m) == << <<m[1][1], m[2][1], m[3][1]>>, <<m[1][2], m[2][2], m[3][2]>>, <<m[1][3], m[2][3], m[3][3]>> >>
RMatMul(a, b) == LET bt == RMatT(b) IN [i \in 1..3 |-> [j \in 1..3 |-> RVDot(a[i], bt[j])]]
RMatAdd(a, b) == [i \in 1..3 |-> [j \in 1..3 |-> RAdd(a[i][j], b[i][j])]]
RMatId == << <<ROne, RZero, RZero>>, <<RZero, ROne, RZero>>, <<RZero, RZero, ROne>> >>

\* Transform = [pos, rot]
RTDo(self, t) == [pos |-> RVAdd(self.pos, RRot(t.pos, self.rot)), rot |-> RQMul(self.rot, t.rot)]
RTId == [pos |-> RVZero, rot |-> RQId]
RTToLocal(a, t) == [pos |-> RRot(RVSub(a.pos, t.pos), RQConj(t.rot)), rot |-> RQMul(RQConj(t.rot), a.rot)]
RTInv(t) == [pos |-> RRot(RVNeg(t.pos), RQConj(t.rot)), rot |-> RQConj(t.rot)]

\* quaternion equality up to sign
QSame(a, b) == a = b \/ a = RQScale(R(-1), b)
=====================================================================================
