-------------------------------- MODULE ShardedQueue --------------------------------
(* PmapWrapper / PjitWrapper around a Queue: N device-side queues sharing ONE host     *)
(* counter (the wrapped buffer's self._size, counted in per-shard records).            *)
(*   insert : reshape(-1, N) then swapaxes(0, 1): record j of the batch (0-based) goes *)
(*            to shard j mod N, at local position j div N                              *)
(*   sample : per-shard batches, swapaxes(0, 1), reshape(-1): output j comes from      *)
(*            shard j mod N, local item j div N                                        *)
(*   size   : psum / sum of the per-shard sizes                                        *)
(* The property: behaves like one queue per shard, batches interleaved in shard order. *)
EXTENDS ReplayQueueOps, FiniteSets, TLC

CONSTANTS N,        \* number of shards
          MaxOps

VARIABLES qs,       \* [0..N-1 -> [data, ip, sp]]
          hsize, next,
          alls, curs,   \* ghost: per-shard abstract queues
          op, out, sz, nops

vars == <<qs, hsize, next, alls, curs, op, out, sz, nops>>
Shard == 0..(N - 1)

Init ==
  /\ qs = [s \in Shard |-> EmptyQ] /\ hsize = 0 /\ next = 0
  /\ alls = [s \in Shard |-> <<>>] /\ curs = [s \in Shard |-> 0]
  /\ op = <<"init">> /\ out = <<"ok">> /\ sz = 0 /\ nops = 0

\* ids next .. next + k*N - 1; shard s receives ids next + s, next + s + N, ...
ShardIds(s, k) == [i \in 1..k |-> next + s + (i - 1) * N]

SumSizes(f) == LET RECURSIVE Go(_) Go(s) == IF s = N THEN 0 ELSE SizeOf(f[s]) + Go(s + 1) IN Go(0)

Insert(k) ==          \* k records per shard, k * N in total
  /\ op' = <<"insert", k * N>> /\ nops' = nops + 1
  /\ IF k > Cap
       THEN /\ out' = <<"ValueError">>
            /\ UNCHANGED <<qs, hsize, next, alls, curs, sz>>
       ELSE /\ hsize' = Min(Cap, hsize + k)
            /\ qs' = [s \in Shard |-> InsertInternal(qs[s], ShardIds(s, k))]
            /\ next' = next + k * N
            /\ out' = <<"ok">>
            /\ sz' = SumSizes(qs')
            /\ alls' = [s \in Shard |-> LastN(Cap, alls[s] \o ShardIds(s, k))]
            /\ curs' = [s \in Shard |-> Max(0, curs[s] - Max(0, Len(alls[s]) + k - Cap))]

Interleave(b) == [j \in 1..(Batch * N) |-> b[(j - 1) % N][((j - 1) \div N) + 1]]

Sample ==
  /\ op' = <<"sample">> /\ nops' = nops + 1
  /\ IF hsize < Batch
       THEN /\ out' = <<"ValueError">>
            /\ UNCHANGED <<qs, hsize, next, alls, curs, sz>>
       ELSE /\ hsize' = IF Cyclic THEN hsize ELSE hsize - Batch
            /\ IF \E s \in Shard : qs[s].ip = 0
                 THEN qs' = qs /\ out' = <<"undefined">>
                 ELSE /\ qs' = [s \in Shard |-> SampleInternal(qs[s])[1]]
                      /\ out' = <<"batch", Interleave([s \in Shard |-> SampleInternal(qs[s])[2]])>>
            /\ sz' = SumSizes(qs')
            /\ UNCHANGED <<next, alls>>
            /\ curs' = [s \in Shard |->
                          IF Cyclic THEN (IF Len(alls[s]) = 0 THEN curs[s] ELSE (curs[s] + Batch) % Len(alls[s]))
                                    ELSE curs[s] + Batch]

Next == (\E k \in 1..(Cap + 1) : Insert(k)) \/ Sample
Spec == Init /\ [][Next]_vars
DepthBound == nops <= MaxOps

-------------------------------------------------------------------------------------
AvailS(s) == IF Cyclic THEN Len(alls[s]) ELSE Len(alls[s]) - curs[s]

\* per shard: exactly the most recent Cap records routed to it (ids congruent to s mod N)
MostRecentS(s) == LET tot == next \div N
                      n   == Min(Cap, tot)
                  IN  [i \in 1..n |-> (tot - n + i - 1) * N + s]
EachShardHeldIsNewest ==
  \A s \in Shard : /\ alls[s] = MostRecentS(s)
                   /\ qs[s].ip = Len(alls[s])
                   /\ SubSeq([i \in 1..Cap |-> qs[s].data[i]], 1, qs[s].ip) = alls[s]
                   /\ qs[s].sp = curs[s]

\* one host counter is enough because all shards stay in lock step
HostSizeAgrees == \A s \in Shard : hsize = AvailS(s)
SizeIsSum == sz = N * AvailS(0)
NeverUndefined == out # <<"undefined">>

AbsBatchS(s) ==
  IF Cyclic THEN [i \in 1..Batch |-> alls[s][((curs[s] + i - 1) % Len(alls[s])) + 1]]
            ELSE SubSeq(alls[s], curs[s] + 1, curs[s] + Batch)

\* "one such queue per shard with batches interleaved in shard order"
SampleInterleavesShards ==
  [][ op' = <<"sample">> =>
        IF AvailS(0) >= Batch
          THEN out' = <<"batch", [j \in 1..(Batch * N) |-> AbsBatchS((j - 1) % N)[((j - 1) \div N) + 1]]>>
          ELSE out' = <<"ValueError">> ]_vars

Age(id) == IF id = 0 /\ next = 0 THEN 0 ELSE id - next
View == << [s \in Shard |-> [i \in 1..Cap |-> IF i <= qs[s].ip THEN Age(qs[s].data[i]) ELSE 0]],
           [s \in Shard |-> <<qs[s].ip, qs[s].sp>>], hsize >>
=====================================================================================
