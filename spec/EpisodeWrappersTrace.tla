---------------------------- MODULE EpisodeWrappersTrace ----------------------------
(* code -> spec: per-member histories recorded from the real wrapper stack (and from   *)
(* acting.generate_unroll) must be behaviours of EpisodeWrappers.  Event 1 is a header *)
(* (L, R, schedule, gain), event 2 the reset, then one event per wrapped step carrying *)
(* the action and every integer-valued field of the returned State.                    *)
EXTENDS EpisodeWrappers, TraceLib

VARIABLES tid, l
ASSUME InitRegs
tvars == <<vars, tid, l>>

Hdr == Traces[tid][1]

StateMatches(e, st, evm) ==
  /\ e.obs = st.obs /\ e.t = st.t /\ e.acc = st.acc
  /\ e.reward = st.reward /\ e.done = st.done
  /\ e.blow = 0            \* whatever the terminal state contained (even +inf), the state after a step is a live one
  \* without an EpisodeWrapper there is no step counter to compare (header noep = 1; then L is effectively infinite)
  /\ (Hdr.noep = 0) => (e.steps = st.steps /\ e.trunc = st.trunc)
  /\ e.fobs = st.fobs /\ e.ft = st.ft
  /\ (Hdr.eval = 1) => (e.esum = evm.esum /\ e.active = evm.active /\ e.epsteps = evm.epsteps)

TraceInit ==
  /\ tid \in 1..NT /\ l = 3
  /\ L = Hdr.L /\ R = Hdr.R /\ Sched = Hdr.sched /\ Gain = Hdr.gain
  /\ s = ResetState /\ ev = ResetEval /\ g = ResetGhost /\ nsteps = 0
  /\ StateMatches(Traces[tid][2], s, ev)

Ev == Traces[tid][l]

\* transitions recorded by acting.generate_unroll chain observation -> next_observation
TransitionMatches(e) ==
  (e.tr = 1) => /\ e.tobs = s.obs
                /\ e.tnext = s'.obs
                /\ e.discount = 1 - s'.done
                /\ e.treward = s'.reward
                /\ e.ttrunc = s'.trunc

TraceNext ==
  /\ l <= Len(Traces[tid]) /\ l' = l + 1 /\ UNCHANGED tid
  /\ Step(Ev.a)
  /\ StateMatches(Ev, s', ev')
  /\ TransitionMatches(Ev)

Progress == Reached(tid, l)
=====================================================================================
