--------------------------------------- MODULE Fuse ---------------------------------------
(* brax/io/mjcf.py _fuse_bodies as tree rewriting: a jointless body is merged into its      *)
(* parent, its children re-parented with the composed pose.  The element tree is a sequence *)
(* of nodes (parent before child).  Poses are exact rationals (decimal-exact, so the "%f"   *)
(* re-serialisation of the code loses nothing).  This specification models the INTENDED     *)
(* rule: the offset is applied whenever the fused body's pose is not the identity.          *)
EXTENDS RatAlg, TLC, Prng, FiniteSets

CONSTANTS ShapeIds,    \* which tree shapes (see Shapes) this run explores
          NPose,       \* pose assignments per (shape, weld-pose-kind pattern)
          SeedBase

VARIABLES nodes,    \* sequence of [kind, parent, pos, quat, ft, alive]; parent 0 = worldbody
          wp0,      \* world pose of every node in the ORIGINAL tree (what must be preserved)
          src,      \* the original tree (for rendering)
          nfused
vars == <<nodes, wp0, src, nfused>>

\* kinds: "J" jointed body, "W" jointless (weld) body, "G" geom with pos/quat, "F" from-to capsule, "S" site
IsBody(k) == k \in {"J", "W"}

Shapes == [
  s1 |-> << <<"W", 0>>, <<"G", 1>>, <<"F", 1>>, <<"S", 1>>, <<"J", 1>>, <<"G", 5>> >>,
  s2 |-> << <<"W", 0>>, <<"G", 1>>, <<"W", 1>>, <<"G", 3>>, <<"F", 3>>, <<"J", 3>>, <<"G", 6>>, <<"S", 6>> >>,
  s3 |-> << <<"W", 0>>, <<"W", 1>>, <<"W", 2>>, <<"G", 3>>, <<"F", 3>>, <<"S", 3>>, <<"J", 3>>, <<"G", 7>> >>,
  j1 |-> << <<"J", 0>>, <<"G", 1>>, <<"W", 1>>, <<"G", 3>>, <<"F", 3>>, <<"S", 3>>, <<"J", 3>>, <<"G", 7>> >>,
  j2 |-> << <<"J", 0>>, <<"G", 1>>, <<"W", 1>>, <<"W", 3>>, <<"G", 4>>, <<"F", 4>>, <<"J", 4>>, <<"G", 7>>,
            <<"W", 7>>, <<"G", 9>> >>,
  j3 |-> << <<"J", 0>>, <<"G", 1>>, <<"W", 1>>, <<"G", 3>>, <<"W", 3>>, <<"S", 5>>, <<"W", 5>>, <<"F", 7>>, <<"G", 7>> >>,
  m1 |-> << <<"W", 0>>, <<"G", 1>>, <<"W", 0>>, <<"F", 3>>, <<"J", 0>>, <<"G", 5>>, <<"W", 5>>, <<"G", 7>>,
            <<"W", 5>>, <<"S", 9>>, <<"J", 9>>, <<"G", 11>> >> ]

\* decimal-exact unit quaternions and positions (tenths)
Quats == { <<1, 0, 0, 0, 1>>, <<3, 4, 0, 0, 5>>, <<1, 2, 2, 4, 5>>, <<1, 1, 1, 1, 2>>, <<1, -1, 7, 7, 10>>,
           <<0, 0, 0, 1, 1>>, <<4, 0, -3, 0, 5>>, <<2, -4, 1, 2, 5>> }
QuatOf(u) == <<RNorm(u[1], u[5]), RNorm(u[2], u[5]), RNorm(u[3], u[5]), RNorm(u[4], u[5])>>
NonIdQuats == Quats \ {<<1, 0, 0, 0, 1>>}
Tenths == -5..5
PosOf(p) == <<RNorm(p[1], 10), RNorm(p[2], 10), RNorm(p[3], 10)>>
ZeroPos == <<RZero, RZero, RZero>>

\* a pose assignment: per node a position triple, a quaternion, a second position (from-to end) and
\* (for weld bodies) which of pos / quat are present at all
\* (flat vector of small integers: RandomSubset is lazy on function sets with an enumerable range)
Genome(n) == [1..(7 * n) -> 0..10]
QuatList == << <<1, 0, 0, 0, 1>>, <<3, 4, 0, 0, 5>>, <<1, 2, 2, 4, 5>>, <<1, 1, 1, 1, 2>>, <<1, -1, 7, 7, 10>>,
               <<0, 0, 0, 1, 1>>, <<4, 0, -3, 0, 5>>, <<2, -4, 1, 2, 5>> >>
GeneAt(gen, i) == LET o == 7 * (i - 1) IN
  [p |-> <<gen[o + 1] - 5, gen[o + 2] - 5, gen[o + 3] - 5>>, q |-> QuatList[(gen[o + 4] % 8) + 1],
   p2 |-> <<gen[o + 5] - 5, gen[o + 6] - 5, gen[o + 7] - 5>>]
PoseKinds == {"neither", "pos", "quat", "both"}

\* orientation of node i; gene value 7 (of 0..7) under a jointless parent means "exactly undo the parent's rotation",
\* so that the composed orientation is the identity (a boundary the re-serialisation must get right)
RECURSIVE QuatFor(_, _, _, _)
QuatFor(shape, i, gen, pk) ==
  LET k == shape[i][1]
      g == GeneAt(gen, i)
      par == shape[i][2]
      hasQuat == IF k = "W" THEN pk[i] \in {"quat", "both"} ELSE TRUE
      cancel == par # 0 /\ shape[par][1] = "W" /\ g.q = QuatList[8] /\ QuatFor(shape, par, gen, pk) # RQId
  IN  IF ~hasQuat \/ k = "F" THEN RQId
      ELSE IF cancel THEN RQConj(QuatFor(shape, par, gen, pk))
      ELSE IF k = "W" /\ g.q = <<1, 0, 0, 0, 1>> THEN QuatOf(<<3, 4, 0, 0, 5>>) ELSE QuatOf(g.q)

MkNode(shape, i, gen, pk) ==
  LET k == shape[i][1]
      g == GeneAt(gen, i)
      hasPos  == IF k = "W" THEN pk[i] \in {"pos", "both"} ELSE TRUE
      \* make sure a weld body that claims a pos / quat really has a non-trivial one
      pos == IF ~hasPos THEN ZeroPos
             ELSE IF k = "W" /\ g.p = <<0, 0, 0>> THEN PosOf(<<1, -2, 3>>) ELSE PosOf(g.p)
      qt  == QuatFor(shape, i, gen, pk)
  IN  [kind |-> k, parent |-> shape[i][2], pos |-> IF k = "F" THEN ZeroPos ELSE pos, quat |-> qt,
       ft |-> IF k = "F" THEN <<PosOf(g.p), PosOf(<<g.p2[1] + 1, g.p2[2], g.p2[3] + 2>>)>> ELSE <<>>,
       alive |-> TRUE]

\* ---------------------------------------------------------------- semantics of a tree
RECURSIVE World(_, _)
World(ns, i) ==      \* world transform of node i (all joints at their zero configuration)
  LET n == ns[i]
      local == [pos |-> n.pos, rot |-> n.quat]
  IN  IF n.parent = 0 THEN local ELSE RTDo(World(ns, n.parent), local)

ParentFrame(ns, i) == IF ns[i].parent = 0 THEN RTId ELSE World(ns, ns[i].parent)

\* what must be preserved for node i: pose, or for a from-to capsule its two end points
Observable(ns, i) ==
  IF ns[i].kind = "F"
    THEN LET pf == ParentFrame(ns, i)
         IN  <<"ends", RVAdd(pf.pos, RRot(ns[i].ft[1], pf.rot)), RVAdd(pf.pos, RRot(ns[i].ft[2], pf.rot))>>
    ELSE <<"pose", World(ns, i).pos, World(ns, i).rot>>

Init ==
  /\ \E sid \in ShapeIds :
       LET shape == Shapes[sid]
           n == Len(shape)
           welds == {i \in 1..n : shape[i][1] = "W"}
       IN  \E pk \in [welds -> PoseKinds], k \in 1..NPose :
             LET gen == GenV(SeedBase + 31 * k + n + 7 * Cardinality({w \in welds : pk[w] \in {"pos", "both"}})
                             + 211 * Cardinality({w \in welds : pk[w] \in {"quat", "both"}}), 7 * n, 11) IN
             nodes = [i \in 1..n |-> MkNode(shape, i, gen, [i2 \in 1..n |-> IF i2 \in welds THEN pk[i2] ELSE "both"])]
  /\ src = nodes
  /\ wp0 = <<>>            \* computed by Snapshot (keeps the single-threaded Init cheap)
  /\ nfused = 0

Children(ns, b) == {i \in 1..Len(ns) : ns[i].alive /\ ns[i].parent = b}

\* post-order: a jointless body may be fused once no live jointless body remains below it
Fusable(b) == /\ nodes[b].alive /\ nodes[b].kind = "W"
              /\ \A c \in Children(nodes, b) : nodes[c].kind # "W"

Snapshot ==
  /\ wp0 = <<>>
  /\ wp0' = [i \in 1..Len(nodes) |-> Observable(nodes, i)]
  /\ UNCHANGED <<nodes, src, nfused>>

FuseOne(b) ==
  /\ wp0 # <<>>
  /\ Fusable(b)
  /\ LET body == nodes[b]
         t == [pos |-> body.pos, rot |-> body.quat]
         moved(c) ==
           IF nodes[c].kind = "F"
             THEN [nodes[c] EXCEPT !.parent = body.parent,
                                   !.ft = <<RVAdd(t.pos, RRot(nodes[c].ft[1], t.rot)),
                                            RVAdd(t.pos, RRot(nodes[c].ft[2], t.rot))>>]
             ELSE LET p == RTDo(t, [pos |-> nodes[c].pos, rot |-> nodes[c].quat])
                  IN  [nodes[c] EXCEPT !.parent = body.parent, !.pos = p.pos, !.quat = p.rot]
     IN  nodes' = [i \in 1..Len(nodes) |->
                     IF i = b THEN [nodes[i] EXCEPT !.alive = FALSE]
                     ELSE IF i \in Children(nodes, b) THEN moved(i) ELSE nodes[i]]
  /\ nfused' = nfused + 1
  /\ UNCHANGED <<wp0, src>>

Next == Snapshot \/ \E b \in 1..Len(nodes) : FuseOne(b)
Spec == Init /\ [][Next]_vars

-------------------------------------------------------------------------------------
\* nothing moves, at EVERY step of the rewriting
PosePreserved ==
  wp0 # <<>> => \A i \in 1..Len(nodes) : (nodes[i].alive /\ nodes[i].kind # "W") => Observable(nodes, i) = wp0[i]

\* parents stay before children and alive (the tree stays a tree)
WellFormed == \A i \in 1..Len(nodes) : nodes[i].alive =>
                 (nodes[i].parent = 0 \/ (nodes[i].parent < i /\ nodes[nodes[i].parent].alive))

Finished == ~ \E b \in 1..Len(nodes) : nodes[b].alive /\ nodes[b].kind = "W"
\* termination: every jointless body is eventually fused (checked as: a state with no Fusable body is Finished)
NoStuck == (\A b \in 1..Len(nodes) : ~Fusable(b)) => Finished
=====================================================================================
