------------------------------- MODULE Adapters -------------------------------
(* brax/envs/wrappers/gym.py (GymWrapper, VectorGymWrapper) and dm_env.py (DmEnvWrapper):      *)
(* host-side objects that hold a PRNG key and the last environment state between calls.       *)
(*                                                                                            *)
(*   seed(s)   : key := PRNGKey(s)                     (the running episode is NOT touched)    *)
(*   reset()   : (k1, k2) = split(key); state := env.reset(k2); key := k1                      *)
(*   step(a)   : state := env.step(state, a)           (fails, changing nothing, before reset) *)
(*   render()  : refused with RuntimeError before the first reset                              *)
(*                                                                                            *)
(* Keys are modelled by their derivation: <<s, n>> is PRNGKey(s) after n "split, keep the     *)
(* first half" steps; the episode started from it is identified by <<s, n, i>> (i = batch     *)
(* member, 0 when unbatched).  The conformance harness computes the real key chain with jax   *)
(* and builds the scripted environment so that an episode's identity is visible in its        *)
(* observations, hence a wrong key discipline (key not advanced, halves swapped, reseeding    *)
(* resetting the episode, ...) shows up as an output the specification does not produce.      *)
(* The environment is scripted: obs = <<id, t, acc>>, reward = 2^(t % 8), done by DoneAt,     *)
(* metrics = {m_only: t, shared: 1}, info = {i_only: acc, shared: 2}.                          *)
EXTENDS Integers, Sequences, FiniteSets, TLC

CONSTANTS Kind,          \* "gym" | "vector" | "dm"
          Seeds,         \* arguments the client may pass to seed()
          InitSeed,      \* constructor argument
          Acts,          \* scalar actions; batch member i receives a + i
          B,             \* batch size of the vector adapter
          MaxN, MaxT     \* exploration bounds: resets per seeding epoch, steps per episode

VARIABLES key,           \* [s, n]
          st,            \* NoState or [Members -> member state]
          out,           \* what the last call returned
          epoch          \* ghost: episode ids started since the last (re)seed
vars == <<key, st, out, epoch>>

NoState == <<>>
Members == IF Kind = "vector" THEN 1..B ELSE {0}
Id(k, i) == <<k.s, k.n, i>>
DoneAt(id, t) == t > 0 /\ (id[1] + 2 * id[2] + id[3] + t) % 3 = 0
Rw(t) == 2 ^ (t % 8)

Fresh(k) == [i \in Members |-> [id |-> Id(k, i), t |-> 0, acc |-> 0, done |-> 0]]
StepMember(m, a) == LET t1 == m.t + 1 IN
  [id |-> m.id, t |-> t1, acc |-> m.acc + a, done |-> IF DoneAt(m.id, t1) THEN 1 ELSE 0]
ObsOf(m) == <<m.id, m.t, m.acc>>

NoOut == [op |-> "none", err |-> FALSE, obs |-> <<>>, reward |-> <<>>, rnone |-> FALSE, done |-> <<>>,
          info |-> <<>>, stype |-> <<>>, discount |-> 0]
ResetOut(s1) ==
  [NoOut EXCEPT !.op = "reset", !.obs = [i \in Members |-> ObsOf(s1[i])],
                !.rnone = (Kind = "dm"),                                   \* dm_env: reward None on FIRST
                !.stype = IF Kind = "dm" THEN "FIRST" ELSE <<>>,
                !.discount = IF Kind = "dm" THEN 1 ELSE 0]
StepOut(s1) ==
  [NoOut EXCEPT !.op = "step", !.obs = [i \in Members |-> ObsOf(s1[i])],
                !.reward = [i \in Members |-> Rw(s1[i].t)],
                !.done = [i \in Members |-> s1[i].done],
                \* gym: info = {**metrics, **info}: the info entry wins a name clash; dm_env drops it
                !.info = IF Kind = "dm" THEN <<>>
                         ELSE [i \in Members |-> [m_only |-> s1[i].t, i_only |-> s1[i].acc, shared |-> 2]],
                !.stype = IF Kind = "dm" THEN (IF s1[0].done = 1 THEN "LAST" ELSE "MID") ELSE <<>>,
                !.discount = IF Kind = "dm" THEN 1 ELSE 0]
ErrOut(op) == [NoOut EXCEPT !.op = op, !.err = TRUE]

Init ==
  /\ key = [s |-> InitSeed, n |-> 0] /\ st = NoState /\ out = NoOut /\ epoch = {}

Seed(s) ==
  /\ key' = [s |-> s, n |-> 0] /\ out' = [NoOut EXCEPT !.op = "seed"] /\ epoch' = {}
  /\ UNCHANGED st

Reset ==
  /\ st' = Fresh(key) /\ key' = [key EXCEPT !.n = @ + 1]
  /\ out' = ResetOut(st') /\ epoch' = epoch \cup {Id(key, i) : i \in Members}

Finished == st # NoState /\ \E i \in Members : st[i].done = 1
StepLive(a) ==
  /\ st # NoState /\ ~Finished
  /\ st' = [i \in Members |-> StepMember(st[i], a + i)] /\ out' = StepOut(st')
  /\ UNCHANGED <<key, epoch>>
\* named deviation from the Gym / dm_env protocols: a finished episode is NOT restarted by the next step; the adapter
\* keeps stepping the environment it holds (auto-reset is the job of AutoResetWrapper below it)
StepAfterDone(a) ==
  /\ Finished
  /\ st' = [i \in Members |-> StepMember(st[i], a + i)] /\ out' = StepOut(st')
  /\ UNCHANGED <<key, epoch>>
StepNoState(a) ==
  /\ st = NoState /\ out' = ErrOut("step") /\ UNCHANGED <<key, st, epoch>>
RenderNoState ==
  /\ st = NoState /\ out' = ErrOut("render") /\ UNCHANGED <<key, st, epoch>>

Next == \/ \E s \in Seeds : Seed(s)
        \/ Reset
        \/ \E a \in Acts : StepLive(a) \/ StepAfterDone(a) \/ StepNoState(a)
        \/ RenderNoState
Spec == Init /\ [][Next]_vars
Bound == key.n <= MaxN /\ (st # NoState => \A i \in Members : st[i].t <= MaxT)

-------------------------------------------------------------------------------------
\* consecutive resets never replay an episode unless the client reseeded in between
FreshEpisodes == [][out'.op = "reset" => \A i \in Members : Id(key, i) \notin epoch]_vars
\* after seed(s) the k-th reset starts episode <<s, k-1>> whatever happened before
Reproducible == \A id \in epoch : id[1] = key.s /\ id[2] < key.n
EpochIsPrefix == Cardinality(epoch) = key.n * Cardinality(Members)
\* reseeding does not touch the running episode, stepping does not touch the key
SeedKeepsEpisode == [][out'.op = "seed" => st' = st]_vars
StepKeepsKey == [][out'.op = "step" => key' = key]_vars
ErrorIffNoState == out.err => st = NoState
StepNeverErrsWithState == (out.op = "step" /\ st # NoState) => ~out.err
DmProtocol == Kind = "dm" =>
  /\ (out.op = "reset" => out.stype = "FIRST" /\ out.rnone /\ out.discount = 1)
  /\ (out.op = "step" /\ ~out.err => (out.stype = "LAST" <=> st[0].done = 1) /\ (out.stype = "MID" <=> st[0].done = 0)
                                      /\ ~out.rnone /\ out.discount = 1)
\* the observation returned is the observation of the state held
ObsIsHeldState == (out.op \in {"reset", "step"} /\ ~out.err) => out.obs = [i \in Members |-> ObsOf(st[i])]
=====================================================================================
