-------------------------------- MODULE ReplayQueue --------------------------------
(* One replay queue object driven through its public API (init / insert / sample /   *)
(* size).  Implementation-level variables mirror ReplayBufferState and the host-side  *)
(* counter self._size; ghost variables carry the abstract meaning the property states.*)
(* Record ids are consecutive integers 1, 2, 3, ... in insertion order.               *)
EXTENDS ReplayQueueOps, FiniteSets, TLC

CONSTANTS Kind,     \* "queue" | "uniform"
          MaxOps    \* depth bound (CONSTRAINT); ignored by the closure configuration

VARIABLES q,        \* [data, ip, sp]   device-side ReplayBufferState
          hsize,    \* self._size       host-side counter used by check_can_*
          key,      \* stands for the PRNG key (only its identity matters)
          next,     \* id of the next record to be inserted
          all,      \* ghost: sequence of held records, oldest first
          cur,      \* ghost: number of records at the front of `all` already consumed (cursor)
          op, out,  \* last public call and what it returned
          sz,       \* what size() returns in this state
          nops

vars == <<q, hsize, key, next, all, cur, op, out, sz, nops>>

Avail == IF Cyclic THEN Len(all) ELSE Len(all) - cur          \* abstract: records still available

Init ==
  /\ q = EmptyQ /\ hsize = 0 /\ key = 0 /\ next = 1
  /\ all = <<>> /\ cur = 0
  /\ op = <<"init">> /\ out = <<"ok">> /\ sz = 0 /\ nops = 0

NewIds(k) == [i \in 1..k |-> next + i - 1]

\* ReplayBuffer.insert = check_can_insert ; insert_internal
Insert(k) ==
  /\ op' = <<"insert", k>> /\ nops' = nops + 1
  /\ IF k > Cap
       THEN \* check_can_insert raises before touching self._size
            /\ out' = <<"ValueError">>
            /\ UNCHANGED <<q, hsize, key, next, all, cur, sz>>
       ELSE /\ hsize' = Min(Cap, hsize + k)
            /\ q' = InsertInternal(q, NewIds(k))
            /\ next' = next + k
            /\ out' = <<"ok">>
            /\ sz' = SizeOf(q')
            /\ UNCHANGED key
            \* abstract meaning: append, drop the oldest beyond capacity, cursor follows its record
            /\ all' = LastN(Cap, all \o NewIds(k))
            /\ cur' = Max(0, cur - Max(0, Len(all) + k - Cap))

\* ReplayBuffer.sample = check_can_sample ; sample_internal
SampleQueue ==
  /\ Kind = "queue"
  /\ op' = <<"sample">> /\ nops' = nops + 1
  /\ IF hsize < Batch
       THEN /\ out' = <<"ValueError">>
            /\ UNCHANGED <<q, hsize, key, next, all, cur, sz>>
       ELSE /\ hsize' = IF Cyclic THEN hsize ELSE hsize - Batch
            /\ IF q.ip = 0
                 THEN q' = q /\ out' = <<"undefined">>       \* modulo by zero; shown unreachable
                 ELSE q' = SampleInternal(q)[1] /\ out' = <<"batch", SampleInternal(q)[2]>>
            /\ sz' = SizeOf(q')
            /\ UNCHANGED <<key, next, all>>
            /\ cur' = IF Cyclic THEN (IF Len(all) = 0 THEN cur ELSE (cur + Batch) % Len(all))
                                 ELSE cur + Batch

\* UniformSamplingQueue has no check_can_sample: sampling is never refused.
SampleUniform ==
  /\ Kind = "uniform"
  /\ op' = <<"sample">> /\ nops' = nops + 1
  /\ out' = <<"held", Held(q)>>            \* batch drawn (with replacement) from these ids
  /\ key' = key + 1                         \* key, sample_key = split(key)
  /\ UNCHANGED <<q, hsize, next, all, cur, sz>>

Next == (\E k \in 1..(Cap + 1) : Insert(k)) \/ SampleQueue \/ SampleUniform

Spec == Init /\ [][Next]_vars

DepthBound == nops <= MaxOps

-------------------------------------------------------------------------------------
(* What the property states, over the ghost variables. *)

\* "holds exactly the most recent max_replay_size inserted records in insertion order"
MostRecent == LET n == Min(Cap, next - 1) IN [i \in 1..n |-> next - n + i - 1]
HeldIsNewest ==
  /\ all = MostRecent
  /\ q.ip = Len(all)
  /\ SubSeq([i \in 1..Cap |-> q.data[i]], 1, q.ip) = all

CursorRange == 0 <= q.sp /\ q.sp <= q.ip /\ q.ip <= Cap /\ q.sp = cur

\* the host-side guard counts exactly what is available on the device
HostSizeAgrees == Kind = "queue" => hsize = Avail

SizeIsAvailable == sz = (IF Kind = "uniform" THEN Len(all) ELSE Avail)

NeverUndefined == out # <<"undefined">>

AbsBatch ==   \* the batch the abstract queue hands out in the current state
  IF Cyclic THEN [i \in 1..Batch |-> all[((cur + i - 1) % Len(all)) + 1]]
            ELSE SubSeq(all, cur + 1, cur + Batch)

\* oldest unsampled first (cyclically in cyclic mode); refuse iff fewer than Batch available
SampleIsFifo ==
  [][ (op' = <<"sample">> /\ Kind = "queue") =>
        IF Avail >= Batch THEN out' = <<"batch", AbsBatch>> ELSE out' = <<"ValueError">> ]_vars

\* uniform: only records currently held
UniformReturnsHeld ==
  [][ (op' = <<"sample">> /\ Kind = "uniform") =>
        /\ out'[2] = {all[i] : i \in 1..Len(all)}
        /\ key' # key ]_vars

\* known finding K3: an empty uniform queue is sampled without refusal and returns
\* the zero-filled slot.  In the model the held set is then empty.
UniformSampleNonEmpty ==
  [][ (op' = <<"sample">> /\ Kind = "uniform") => out'[2] # {} ]_vars

InsertRefusal ==
  [][ op'[1] = "insert" => (out' = <<"ValueError">>) = (op'[2] > Cap) ]_vars

-------------------------------------------------------------------------------------
(* Closure configuration: rename ids by age so that the reachable graph is finite.   *)
Age(id) == IF id = 0 THEN 0 ELSE id - next                  \* in -Cap..-1 for held records
View == << [i \in 1..Cap |-> Age(q.data[i])], q.ip, q.sp, hsize,
           [i \in 1..Len(all) |-> Age(all[i])], cur >>
=====================================================================================
