------------------------------------- MODULE ContactLaws -------------------------------------
(* C06 as laws over recorded observables (integers: lengths in micrometres, speeds in um/s,     *)
(* relative differences in units of 1e-12, saturated at 2^30).                                   *)
(*  inert    : every candidate contact separated (resp. every limited joint strictly inside its  *)
(*             range) before and after the step  =>  the step equals the step of the twin model  *)
(*             with collisions disabled (resp. all limits removed)                                *)
(*  unitquat : link rotations stay unit quaternions                                              *)
(*  push     : a body at rest slightly inside the ground is only moved along +normal             *)
(*  drop     : scenario automaton  Falling -> Touching -> {Rebounding -> Falling | Resting}      *)
(*             with "never sinks more than Sink below the rest height" at every step and          *)
(*             "ends at rest at the analytic height" as end-of-history condition                  *)
(*  rebound  : speed ratio minus elasticity inside the pipeline's margin                          *)
EXTENDS TraceLib, Integers

CONSTANTS EpsRel,       \* equality of twin runs, units of 1e-12 relative
          EpsQuat,      \* | |q| - 1 |, units of 1e-12
          EpsPush,      \* um / (um/s) slack for push-only
          Sink,         \* um: maximum sinking below the rest height
          RestTol,      \* um: final height tolerance
          RestSpeed     \* um/s: final speed tolerance
VARIABLES tid, l, ph
ASSUME InitRegs
Ev == Traces[tid][l]
TraceInit == tid \in 1..NT /\ l = 1 /\ ph = "none"
Adv == l <= Len(Traces[tid]) /\ l' = l + 1 /\ UNCHANGED tid

Inert == /\ Ev.kind = "inert"
         /\ (Ev.guard_before = 1 /\ Ev.guard_after = 1 /\ Ev.diverged = 0) => Ev.diff <= EpsRel
         /\ UNCHANGED ph
UnitQuat == Ev.kind = "unitquat" /\ (Ev.diverged = 0 => Ev.dev <= EpsQuat) /\ UNCHANGED ph
Push == /\ Ev.kind = "push"
        /\ Ev.dz >= -EpsPush /\ Ev.vz >= -EpsPush
        /\ UNCHANGED ph
\* drop history: h = centre height minus analytic rest height (um), v = vertical velocity (um/s), touch = in contact band
DropStart == Ev.kind = "drop_start" /\ ph' = "falling"
DropStep ==
  /\ Ev.kind = "drop" /\ ph \in {"falling", "touching", "rebounding", "resting"}
  /\ Ev.h >= -Sink                                           \* never sinks by more than a few centimetres
  /\ ph' = IF Ev.touch = 0 THEN (IF Ev.v > 0 THEN "rebounding" ELSE "falling")
           ELSE IF Ev.slow = 1 THEN "resting" ELSE "touching"
DropEnd ==
  /\ Ev.kind = "drop_end" /\ ph \in {"resting", "touching"}
  /\ Ev.h <= RestTol /\ Ev.h >= -RestTol /\ Ev.speed <= RestSpeed
  /\ ph' = "none"
Rebound == /\ Ev.kind = "rebound"
           /\ Ev.ratio_minus_e >= Ev.lo /\ Ev.ratio_minus_e <= Ev.hi      \* margins are the property's, per pipeline
           /\ UNCHANGED ph

TraceNext == Adv /\ (Inert \/ UnitQuat \/ Push \/ DropStart \/ DropStep \/ DropEnd \/ Rebound)
Progress == Reached(tid, l)
=====================================================================================
