---------------------------------------- MODULE Pgs ----------------------------------------
(* math.solve_pgs: projected Gauss-Seidel for  A x + b = 0, x >= 0  as a row-by-row state      *)
(* machine over exact rationals.  (Coverage beyond the listed properties, DESIGN section 9 S1.) *)
(*   Row(i): residual = b_i + a_i . x ;  x_i := max(x_i - residual / a_ii, 0)                   *)
(* For symmetric A with positive diagonal every row update does not increase the energy         *)
(* f(x) = 1/2 x'Ax + b'x, keeps x >= 0, and leaves row i complementary.                         *)
EXTENDS Rat, Sequences, TLC, Prng

CONSTANTS NCases, NumIters, SeedBase
VARIABLES a, b, x, row, sweep, hist
vars == <<a, b, x, row, sweep, hist>>
n == Len(b)
Dot(u, v) == LET RECURSIVE S(_) S(k) == IF k = 0 THEN RZero ELSE RAdd(S(k - 1), RMul(u[k], v[k])) IN S(Len(u))
Energy(xx) == RAdd(RDiv(Dot(xx, [i \in 1..n |-> Dot(a[i], xx)]), R(2)), Dot(b, xx))

Init ==
  /\ \E k \in 1..NCases :
       LET g == GenV(SeedBase + k, 16, 7)
           m == 2 + (g[1] % 2)
           off(i, j) == IF i < j THEN (g[1 + i + 3 * j] % 3) - 1 ELSE (g[1 + j + 3 * i] % 3) - 1      \* symmetric, in -1..1
       IN  /\ a = [i \in 1..m |-> [j \in 1..m |-> IF i = j THEN R(3 + (g[10 + i] % 3)) ELSE R(off(i, j))]]   \* diagonally dominant
           /\ b = [i \in 1..m |-> RNorm(g[13 + i] - 3, 2)]
  /\ x = [i \in 1..n |-> RZero] /\ row = 1 /\ sweep = 1 /\ hist = <<>>

\* 3x3 systems get one sweep only: the exact iterates outgrow 32 bits after that
Sweeps == IF n = 2 THEN NumIters ELSE 1

Row ==
  /\ sweep <= Sweeps
  /\ LET res == RAdd(b[row], Dot(a[row], x))
         xi  == RMax(RSub(x[row], RDiv(res, a[row][row])), RZero)
     IN  x' = [x EXCEPT ![row] = xi]
  /\ row' = IF row = n THEN 1 ELSE row + 1
  /\ sweep' = IF row = n THEN sweep + 1 ELSE sweep
  /\ hist' = Append(hist, row)
  /\ UNCHANGED <<a, b>>
Next == Row
Spec == Init /\ [][Next]_vars

NonNegative == \A i \in 1..n : RLe(RZero, x[i])
\* the row just updated is complementary: x_i = 0 with residual >= 0, or residual = 0
RowSolved == hist # <<>> =>
  LET i == hist[Len(hist)] res == RAdd(b[i], Dot(a[i], x)) IN
  (x[i] = RZero /\ RLe(RZero, res)) \/ res = RZero
EnergyDecreases == [][sweep = 1 => RLe(Energy(x'), Energy(x))]_vars      \* (first sweep only: later iterates overflow the 32-bit comparison)
Finished == sweep > Sweeps
=====================================================================================
