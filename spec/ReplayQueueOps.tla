------------------------------ MODULE ReplayQueueOps ------------------------------
(* Implementation-level operators of brax/training/replay_buffers.py (QueueBase,     *)
(* Queue), written as pure functions on a record q = [data, ip, sp]:                  *)
(*   data : 1..Cap -> record id (0 = never written)   ring storage                    *)
(*   ip   : insert_position        sp : sample_position                               *)
(* Each operator mirrors one line group of the code; see the comments.                *)
EXTENDS Integers, Sequences

CONSTANTS Cap,      \* max_replay_size
          Batch,    \* sample_batch_size
          Cyclic    \* Queue(cyclic=...)

Min(a, b) == IF a < b THEN a ELSE b
Max(a, b) == IF a > b THEN a ELSE b

LastN(n, s) == IF Len(s) <= n THEN s ELSE SubSeq(s, Len(s) - n + 1, Len(s))

EmptyQ == [data |-> [i \in 1..Cap |-> 0], ip |-> 0, sp |-> 0]

\* jnp.roll(d, r, axis=0) for r <= 0 : out[i] = d[(i - r) mod Cap]   (0-based)
Roll(d, r) == [i \in 1..Cap |-> d[((i - 1 - r) % Cap) + 1]]

\* QueueBase.insert_internal
InsertInternal(q, ids) ==
  LET k    == Len(ids)
      roll == Min(0, Cap - q.ip - k)                       \* jnp.minimum(0, len(data) - position - len(update))
      d1   == IF roll # 0 THEN Roll(q.data, roll) ELSE q.data   \* lax.cond(roll, roll data, data)
      pos  == q.ip + roll                                   \* position + roll
      posc == Max(0, Min(pos, Cap - k))                     \* dynamic_update_slice clamps the start index
      d2   == [i \in 1..Cap |-> IF posc < i /\ i <= posc + k THEN ids[i - posc] ELSE d1[i]]
  IN  [data |-> d2,
       ip   |-> (pos + k) % (Cap + 1),                      \* (position + len(update)) % (len(data) + 1)
       sp   |-> Max(0, q.sp + roll)]                        \* jnp.maximum(0, sample_position + roll)

\* Queue.sample_internal : returns <<new q, batch>>; only meaningful when q.ip > 0
SampleIdx(q, i) == (((i - 1 + q.sp) % q.ip) % Cap) + 1     \* (arange + sp) % ip, then take(..., mode='wrap')
SampleInternal(q) ==
  LET batch == [i \in 1..Batch |-> q.data[SampleIdx(q, i)]]
      sp1   == q.sp + Batch
  IN  << [q EXCEPT !.sp = IF Cyclic THEN sp1 % q.ip ELSE sp1], batch >>

\* Queue.size
SizeOf(q) == IF Cyclic THEN q.ip ELSE q.ip - q.sp

Held(q) == {q.data[i] : i \in (q.sp + 1)..q.ip}             \* UniformSamplingQueue: randint(sp, ip)
=====================================================================================
