------------------------------ MODULE ReplayQueueTrace ------------------------------
(* code -> spec: every recorded history of a real Queue / UniformSamplingQueue must be  *)
(* a behaviour of ReplayQueue.  Events carry the call, its argument and everything the  *)
(* call returned (batch ids, error, size()); cursors are inferred by the spec.          *)
EXTENDS ReplayQueue, TraceLib

VARIABLES tid, l, memo      \* memo: key id -> batch digest seen (uniform determinism)

ASSUME InitRegs

tvars == <<vars, tid, l, memo>>

TraceInit == Init /\ tid \in 1..NT /\ l = 1 /\ memo = <<>>

Ev == Traces[tid][l]

Ret(e) == IF e.res = "batch" THEN <<"batch", e.ids>> ELSE <<e.res>>

InsertEv ==
  /\ Ev.op = "insert" /\ Insert(Ev.k)
  /\ out' = <<Ev.res>> /\ sz' = Ev.size /\ UNCHANGED memo

SampleQueueEv ==
  /\ Ev.op = "sample" /\ SampleQueue
  /\ out' = Ret(Ev) /\ sz' = Ev.size /\ UNCHANGED memo

\* uniform: returned ids must all be held; same (key, state) must give the same batch; key must change
SampleUniformEv ==
  /\ Ev.op = "sample" /\ SampleUniform
  /\ Ev.res = "batch"
  /\ \A i \in 1..Len(Ev.ids) : Ev.ids[i] \in out'[2]
  /\ Len(Ev.ids) = Batch
  /\ Ev.keyafter # Ev.keybefore
  /\ Ev.again = Ev.digest                  \* re-execution from the same state returned the same batch
  /\ sz' = Ev.size /\ UNCHANGED memo

TraceNext ==
  /\ l <= Len(Traces[tid]) /\ l' = l + 1 /\ UNCHANGED tid
  /\ (InsertEv \/ SampleQueueEv \/ SampleUniformEv)

Progress == Reached(tid, l)
TraceSpec == TraceInit /\ [][TraceNext]_tvars
=====================================================================================
