---------------------------------- MODULE KinematicsOps ----------------------------------
(* Operators of forward kinematics over exact rationals (reference-engine semantics); see   *)
(* Kinematics.tla for the state machine that uses them.  No variables here, so the dynamics *)
(* specifications can reuse them.                                                            *)
EXTENDS ModelSpace

PW == 6      \* pose genes per link: root pos (3) + root quat (1) are shared with joint slots
\* half-angle pairs <<c, s, den, cost>> ; cost ~ log5 of the denominator
HATable == << <<1, 0, 1, 0>>, <<4, 3, 5, 1>>, <<4, -3, 5, 1>>, <<3, 4, 5, 1>>, <<3, -4, 5, 1>>, <<12, 5, 13, 2>>,
              <<12, -5, 13, 2>>, <<24, 7, 25, 2>>, <<15, -8, 17, 2>>, <<4, 3, 5, 1>>, <<1, 0, 1, 0>>, <<4, -3, 5, 1>> >>
HAAt(k) == HATable[(k % 12) + 1]
Cs(h) == RNorm(h[1], h[3])
Sn(h) == RNorm(h[2], h[3])

\* pose genome: per link 8 genes: [1..3] joint position slots (half-angle index / slide tenths; free: root pos),
\* [4] root quaternion index, [5..7] joint velocity slots, [8] spare ; free links use [1..3] pos, [4] quat,
\* [5..7] linear velocity, and reuse [1..3] shifted for the angular velocity
PGW == 8
PGene(p, i, k) == p[(i - 1) * PGW + k]

DecodePose(m, p) ==
  [i \in 1..NLinks(m) |->
     LET l == m.links[i] IN
     IF l.root = "free"
       THEN [rootpos |-> <<RNorm(PGene(p, i, 1) - 5, 4), RNorm(PGene(p, i, 2) - 5, 4), RNorm(PGene(p, i, 3) - 2, 4)>>,
             rootquat |-> QuatAt(PGene(p, i, 4)),
             qdlin |-> <<Tenth(PGene(p, i, 5)), Tenth(PGene(p, i, 6)), Tenth(PGene(p, i, 7))>>,
             qdang |-> <<Tenth(PGene(p, i, 3)), Tenth(PGene(p, i, 1)), Tenth(PGene(p, i, 8))>>,
             joints |-> <<>>]
       ELSE [rootpos |-> RVZero, rootquat |-> RQId, qdlin |-> RVZero, qdang |-> RVZero,
             joints |-> [j \in 1..Len(l.stack) |->
                           [ha |-> HAAt(PGene(p, i, j)),                 \* hinge: half-angle pair
                            d  |-> Tenth(PGene(p, i, j)),                \* slide: displacement
                            qd |-> Tenth(PGene(p, i, 4 + j))]]]]

\* ---- denominator budget: sum of rotation costs along every root-to-leaf chain
QuatCost(q) == IF q = RQId THEN 0 ELSE IF q[1][2] <= 2 /\ q[2][2] <= 2 THEN 0 ELSE IF q[1][2] = 10 \/ q[3][2] = 10 THEN 2 ELSE 1
AxisCost(a) == IF a \in {X, Y, Z, RVNeg(X)} THEN 0 ELSE IF a \in {U1, U2} THEN 1 ELSE 2
LinkCost(m, ps, i) ==
  LET l == m.links[i] IN
  IF l.root = "free" THEN QuatCost(ps[i].rootquat)
  ELSE QuatCost(l.quat) +
       (LET RECURSIVE S(_) S(j) == IF j = 0 THEN 0 ELSE S(j - 1) +
              (IF l.stack[j].kind = "H" /\ ps[i].joints[j].ha[4] > 0
                 THEN ps[i].joints[j].ha[4] + AxisCost(l.stack[j].axis) ELSE
               IF l.stack[j].kind = "S" THEN 0 ELSE 0)
        IN S(Len(l.stack)))
RECURSIVE ChainCost(_, _, _)
ChainCost(m, ps, i) == IF i = 0 THEN 0 ELSE ChainCost(m, ps, m.links[i].parent) + LinkCost(m, ps, i)
WithinBudget(m, ps, budget) == \A i \in 1..NLinks(m) : ChainCost(m, ps, i) <= budget

\* ---------------------------------------------------------------- forward kinematics
\* apply joint j of link l to the frame <<pos, quat>>
ApplyJoint(fr, l, jt, jp) ==
  IF jt.kind = "S"
    THEN [pos |-> RVAdd(fr.pos, RVScale(jp.d, RRot(jt.axis, fr.rot))), rot |-> fr.rot]
    ELSE LET anchorW == RVAdd(fr.pos, RRot(l.anchor, fr.rot))
             qloc    == <<Cs(jp.ha), RMul(Sn(jp.ha), jt.axis[1]), RMul(Sn(jp.ha), jt.axis[2]), RMul(Sn(jp.ha), jt.axis[3])>>
             rot1    == RQMul(fr.rot, qloc)
         IN  [pos |-> RVSub(anchorW, RRot(l.anchor, rot1)), rot |-> rot1]

RECURSIVE ApplyStack(_, _, _, _)
ApplyStack(fr, l, jps, j) == IF j = 0 THEN fr ELSE ApplyJoint(ApplyStack(fr, l, jps, j - 1), l, l.stack[j], jps[j])

RECURSIVE WorldFrame(_, _, _)
WorldFrame(m, ps, i) ==
  LET l == m.links[i] IN
  IF l.root = "free" THEN [pos |-> ps[i].rootpos, rot |-> ps[i].rootquat]
  ELSE LET pf == IF l.parent = 0 THEN RTId ELSE WorldFrame(m, ps, l.parent)
           placed == RTDo(pf, [pos |-> l.pos, rot |-> l.quat])
       IN  ApplyStack(placed, l, ps[i].joints, Len(l.stack))

\* ---- velocities for the claimed class
RECURSIVE InVelClass(_, _)
InVelClass(m, i) ==
  LET l == m.links[i] IN
  /\ (l.root = "free" \/ (Len(l.stack) = 1 /\ l.anchor = RVZero))
  /\ (l.parent = 0 \/ InVelClass(m, l.parent))

RECURSIVE WorldVel(_, _, _)
WorldVel(m, ps, i) ==       \* [ang, vel] : world angular velocity, world linear velocity of the link origin
  LET l == m.links[i]
      fr == WorldFrame(m, ps, i)
  IN  IF l.root = "free"
        THEN [ang |-> RRot(ps[i].qdang, fr.rot), vel |-> ps[i].qdlin]      \* reference convention: local angular
        ELSE LET pv == IF l.parent = 0 THEN [ang |-> RVZero, vel |-> RVZero] ELSE WorldVel(m, ps, l.parent)
                 pp == IF l.parent = 0 THEN RVZero ELSE WorldFrame(m, ps, l.parent).pos
                 carried == RVAdd(pv.vel, RVCross(pv.ang, RVSub(fr.pos, pp)))
                 jt == l.stack[1]
                 axisW == RRot(jt.axis, fr.rot)                            \* axis in the link's own world frame
                 qd == ps[i].joints[1].qd
             IN  IF jt.kind = "H" THEN [ang |-> RVAdd(pv.ang, RVScale(qd, axisW)), vel |-> carried]
                                  ELSE [ang |-> pv.ang, vel |-> RVAdd(carried, RVScale(qd, axisW))]

=====================================================================================
