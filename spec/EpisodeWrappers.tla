------------------------------ MODULE EpisodeWrappers ------------------------------
(* One batch member of   AutoResetWrapper(EpisodeWrapper(VmapWrapper(env)))            *)
(* (training.wrap) -- the same single-member semantics as envs.create's order --       *)
(* optionally under EvalWrapper, around a scripted deterministic environment:          *)
(*   base state  t   = sub-steps since its reset,  acc = sum of the actions applied    *)
(*   obs = <<t, acc>>,  reward = Gain * Rw(t),  done = Sched[t]  (0 beyond the end)    *)
(* Operators mirror brax/envs/wrappers/training.py line by line; the ghost ledger      *)
(* (npre, lastSub, ep, k, log, firstSum) states what the property says.                *)
EXTENDS Integers, Sequences, TLC

CONSTANTS MaxL, MaxR, SLen, HorizonEps   \* exploration bounds

VARIABLES L, R, Sched, Gain,       \* configuration, fixed per behaviour
          s,                       \* env State of this member (record, below)
          ev,                      \* EvalWrapper metrics [esum, active, epsteps]
          g,                       \* ghost ledger
          nsteps                   \* wrapped steps taken

vars == <<L, R, Sched, Gain, s, ev, g, nsteps>>

Rw(t) == 2 ^ (t % 16)
SchedAt(t) == IF t >= 1 /\ t <= Len(Sched) THEN Sched[t] ELSE 0

\* ---- scripted base environment
\* (the reset state depends on the member's system parameter: acc starts at Gain - 1, i.e. 0 for the nominal system)
BaseReset == [t |-> 0, acc |-> Gain - 1, obs |-> <<0, Gain - 1>>, reward |-> 0, done |-> 0]
BaseStep(b, a) == LET t1 == b.t + 1 IN
  [t |-> t1, acc |-> b.acc + a, obs |-> <<t1, b.acc + a>>, reward |-> Gain * Rw(t1), done |-> SchedAt(t1)]

\* ---- EpisodeWrapper.step : scan of R base steps (it keeps stepping after a mid-repeat done)
RECURSIVE Sub(_, _, _)
Sub(b, a, i) == IF i = 0 THEN <<b, 0>>
                ELSE LET p == Sub(b, a, i - 1)
                         n == BaseStep(p[1], a)
                     IN <<n, p[2] + n.reward>>

EpisodeStep(st, a) ==
  LET p     == Sub([t |-> st.t, acc |-> st.acc, obs |-> st.obs, reward |-> st.reward, done |-> st.done], a, R)
      b     == p[1]
      steps == st.steps + R
  IN  [st EXCEPT !.t = b.t, !.acc = b.acc, !.obs = b.obs,
                 !.reward = p[2],                                   \* jp.sum(rewards)
                 !.steps = steps,
                 !.done  = IF steps >= L THEN 1 ELSE b.done,        \* where(steps >= episode_length, one, done)
                 !.trunc = IF steps >= L THEN 1 - b.done ELSE 0]    \* where(steps >= episode_length, 1 - done, zero)

\* ---- AutoResetWrapper.step
AutoResetStep(st, a) ==
  LET s0 == [st EXCEPT !.steps = IF st.done = 1 THEN 0 ELSE st.steps, !.done = 0]
      s1 == EpisodeStep(s0, a)
  IN  IF s1.done = 1
        THEN [s1 EXCEPT !.t = st.ft, !.acc = st.facc, !.obs = st.fobs]   \* where_done(first_*, *)
        ELSE s1

\* ---- EvalWrapper.step
EvalStep(e, s1) ==
  [esum    |-> e.esum + s1.reward * e.active,
   epsteps |-> IF e.active = 1 THEN s1.steps ELSE e.epsteps,
   active  |-> e.active * (1 - s1.done)]

ResetState == [t |-> 0, acc |-> Gain - 1, obs |-> <<0, Gain - 1>>, reward |-> 0, done |-> 0,
               steps |-> 0, trunc |-> 0, ft |-> 0, facc |-> Gain - 1, fobs |-> <<0, Gain - 1>>]
ResetEval  == [esum |-> 0, active |-> 1, epsteps |-> 0]
ResetGhost == [npre |-> 0, n |-> 0, lastSub |-> 0, ep |-> 1, k |-> 0, log |-> <<>>, firstSum |-> 0,
               firstLen |-> 0, rdef |-> 0, a |-> 0, t0 |-> 0]

ActOf(st) == (st.t \div R) % 3           \* the scripted policy used in exhaustive exploration

Init ==
  /\ L \in 1..MaxL /\ R \in 1..MaxR /\ Sched \in [1..SLen -> {0, 1}] /\ Gain = 1
  /\ s = ResetState /\ ev = ResetEval /\ g = ResetGhost /\ nsteps = 0

\* sum of the scripted rewards of sub-steps t0+1 .. t0+R, from the definition
RECURSIVE RewardDef(_, _)
RewardDef(t0, i) == IF i = 0 THEN 0 ELSE RewardDef(t0, i - 1) + Gain * Rw(t0 + i)

Step(a) ==
  LET s1   == AutoResetStep(s, a)
      n0   == g.n                             \* sub-steps simulated so far in the running episode
      npre == n0 + R
      sub  == SchedAt(s.t + R)                \* what the wrapped env reports at the wrapped-step boundary
      rec  == <<s1.obs, s1.reward, s1.done, s1.trunc>>
  IN  /\ s' = s1
      /\ ev' = EvalStep(ev, s1)
      /\ g' = [npre |-> npre, lastSub |-> sub,
               n  |-> IF s1.done = 1 THEN 0 ELSE npre,
               ep |-> IF s.done = 1 THEN g.ep + 1 ELSE g.ep,
               k  |-> IF s.done = 1 THEN 1 ELSE g.k + 1,
               log |-> IF (IF s.done = 1 THEN g.ep + 1 ELSE g.ep) = 1 THEN Append(g.log, rec) ELSE g.log,
               firstSum |-> IF g.ep = 1 /\ s.done = 0 THEN g.firstSum + s1.reward ELSE g.firstSum,
               firstLen |-> IF g.ep = 1 /\ s.done = 0 THEN npre ELSE g.firstLen,
               rdef |-> RewardDef(s.t, R), a |-> a, t0 |-> s.t]
      /\ nsteps' = nsteps + 1
      /\ UNCHANGED <<L, R, Sched, Gain>>

Next == Step(ActOf(s))
Spec == Init /\ [][Next]_vars

Horizon == nsteps <= HorizonEps * ((L + R - 1) \div R)

-------------------------------------------------------------------------------------
(* The property, over the ledger.  All are state invariants of post-step states.      *)
Stepped == nsteps > 0

\* an episode is cut at the first wrapped step whose sub-step count reaches L, or on a reported termination
CutExactly == Stepped => (s.done = 1 <=> (g.npre >= L \/ g.lastSub = 1))
\* ... which is exactly L sub-steps whenever R divides L, and never more than R-1 beyond it
NeverOverrun == Stepped => /\ g.npre < L + R
                           /\ (L % R = 0 /\ g.npre >= L) => g.npre = L
TruncationIffTimeLimit == Stepped => (s.trunc = 1 <=> (g.npre >= L /\ g.lastSub = 0))
RewardIsSubstepSum == Stepped => s.reward = g.rdef
CounterIsLedger == Stepped => s.steps = g.npre           \* restarts after every episode end
CounterRestarts == (Stepped /\ g.k = 1) => s.steps = R
ResetObsAfterDone == (Stepped /\ s.done = 1) => (s.obs = s.fobs /\ s.t = s.ft /\ s.acc = s.facc)
\* every later episode replays the first one step for step (same scripted policy)
EpisodeReplays == (Stepped /\ g.ep > 1 /\ g.k <= Len(g.log)) =>
                     g.log[g.k] = <<s.obs, s.reward, s.done, s.trunc>>
\* evaluation metrics cover the member's first episode only
EvalFirstEpisodeOnly == /\ ev.esum = g.firstSum
                        /\ ev.epsteps = g.firstLen
                        /\ ev.active = (IF g.ep = 1 /\ s.done = 0 THEN 1 ELSE 0)
\* a mid-repeat termination that the last sub-step does not report is invisible by construction
MidRepeatDoneOverwritten == Stepped /\ R > 1 /\ g.lastSub = 0 /\
                            \E i \in 1..(R - 1) : SchedAt(g.t0 + i) = 1
=====================================================================================
