------------------------------------ MODULE LoadSession ------------------------------------
(* A loaded system object over time: the host program may switch unsupported features on and *)
(* off IN PLACE on the model it holds (option fields, per-geom / per-joint arrays) between    *)
(* pipeline initialisations.  Whatever happened before, an initialisation must be refused     *)
(* exactly when the model uses an unsupported feature AT THAT MOMENT (no memory of earlier    *)
(* verdicts).                                                                                 *)
EXTENDS Naturals, Sequences, FiniteSets, TLC

CONSTANTS Features, Pipes, MaxOps

VARIABLES on,        \* set of features currently switched on in the model object
          op, out, nops
vars == <<on, op, out, nops>>

Init == on = {} /\ op = <<"load">> /\ out = "ok" /\ nops = 0

Set(f)   == f \notin on /\ on' = on \cup {f} /\ op' = <<"set", f>> /\ out' = "ok" /\ nops' = nops + 1
Clear(f) == f \in on /\ on' = on \ {f} /\ op' = <<"clear", f>> /\ out' = "ok" /\ nops' = nops + 1
InitPipe(p) == /\ op' = <<"init", p>> /\ nops' = nops + 1 /\ UNCHANGED on
               /\ out' = IF on = {} THEN "accepted" ELSE "rejected"

Next == (\E f \in Features : Set(f) \/ Clear(f)) \/ (\E p \in Pipes : InitPipe(p))
Spec == Init /\ [][Next]_vars
DepthBound == nops <= MaxOps

\* the verdict depends on the present feature set only
VerdictIsMemoryless == op[1] = "init" => (out = "rejected") = (on # {})
=====================================================================================
