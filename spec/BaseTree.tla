-------------------------------------- MODULE BaseTree --------------------------------------
(* brax/base.py `Base`: every brax record (Transform, Motion, Force, Inertia, Link, DoF, ...)    *)
(* is a batched tree that is indexed, sliced, gathered and scattered like an array.  The tree is *)
(* modelled by the sequence of its rows; the conformance harness builds a real Transform whose   *)
(* leaves are functions of the row value, so every leaf must move together.                      *)
(*   Take     gather with wrap-around indices      (jp.take mode='wrap')                         *)
(*   Slice    rows beg .. end-1                    Concat   rows of several trees                *)
(*   IndexSet scatter (distinct indices)           IndexSum scatter-ADD (duplicates accumulate)  *)
(*   Select   row-wise choice by a 0/1 mask        + - * neg   row-wise arithmetic               *)
(* Laws checked on every generated instance; each instance and its results are replayed.         *)
EXTENDS Integers, Sequences, FiniteSets, TLC, Prng

CONSTANTS NCases, SeedBase
VARIABLES inst
vars == <<inst>>

Take(x, idx) == [j \in 1..Len(idx) |-> x[(idx[j] % Len(x)) + 1]]
Slice(x, b, e) == [j \in 1..(e - b) |-> x[b + j]]
IndexSet(x, idx, o) == [i \in 1..Len(x) |-> IF \E j \in 1..Len(idx) : idx[j] = i - 1
                                            THEN o[CHOOSE j \in 1..Len(idx) : idx[j] = i - 1] ELSE x[i]]
SumSeq(s) == LET RECURSIVE S(_) S(i) == IF i = 0 THEN 0 ELSE S(i - 1) + s[i] IN S(Len(s))
IndexSum(x, idx, o) == [i \in 1..Len(x) |-> x[i] + SumSeq([j \in 1..Len(idx) |-> IF idx[j] = i - 1 THEN o[j] ELSE 0])]
Select(x, o, c) == [i \in 1..Len(x) |-> IF c[i] = 1 THEN x[i] ELSE o[i]]
Add(x, o) == [i \in 1..Len(x) |-> x[i] + o[i]]

Init ==
  \E k \in 1..NCases :
    LET g == GenV(SeedBase + k, 40, 97)
        n == (g[1] % 5) + 1
        m == (g[2] % 4) + 1
        x == [i \in 1..n |-> (g[2 + i] % 9) - 4]
        o == [i \in 1..n |-> (g[8 + i] % 9) - 4]
        c == [i \in 1..n |-> g[14 + i] % 2]
        widx == [j \in 1..m |-> (g[20 + j] % (3 * n)) - n]                  \* gather indices, some negative or >= n
        sidx == [j \in 1..m |-> g[25 + j] % n]                               \* scatter-add indices, duplicates welcome
        od == [j \in 1..m |-> (g[30 + j] % 7) - 3]
        \* distinct scatter indices: a rotation of 0..n-1 cut to length min(m, n)
        dm == IF m < n THEN m ELSE n
        didx == [j \in 1..dm |-> (j - 1 + g[36]) % n]
        b == g[37] % (n + 1)
        e == b + (g[38] % (n - b + 1))
    IN inst = [x |-> x, o |-> o, c |-> c, widx |-> widx, sidx |-> sidx, od |-> od, didx |-> didx, b |-> b, e |-> e,
               take |-> Take(x, widx), slice |-> Slice(x, b, e), concat |-> x \o o,
               iset |-> IndexSet(x, didx, [j \in 1..dm |-> od[j]]), isum |-> IndexSum(x, sidx, od),
               select |-> Select(x, o, c), add |-> Add(x, o), sub |-> [i \in 1..n |-> x[i] - o[i]],
               mul3 |-> [i \in 1..n |-> 3 * x[i]], neg |-> [i \in 1..n |-> -x[i]]]
Next == UNCHANGED inst
Spec == Init /\ [][Next]_vars

n == Len(inst.x)
SliceConcat == \A k \in 0..n : Slice(inst.x, 0, k) \o Slice(inst.x, k, n) = inst.x
TakeWraps == \A i \in 0..(n - 1) : Take(inst.x, <<i + n>>) = Take(inst.x, <<i>>) /\ Take(inst.x, <<i - n>>) = Take(inst.x, <<i>>)
\* scatter-add moves quantity around but creates none: the row total grows by exactly what was added
ScatterAddConserves == SumSeq(inst.isum) = SumSeq(inst.x) + SumSeq(inst.od)
SetThenTake == Take(inst.iset, inst.didx) = [j \in 1..Len(inst.didx) |-> inst.od[j]]
SelectComplement == Add(inst.select, Select(inst.o, inst.x, inst.c)) = inst.add
=============================================================================================
