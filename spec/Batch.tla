---------------------------------------- MODULE Batch ----------------------------------------
(* Batching is transparent:  BatchStep(s, a)[m] = Step(s[m], a[m])  for an uninterpreted Step.   *)
(* Over recorded residuals (units of 1e-12 relative, saturated):                                 *)
(*   pointwise        : member m of jit(vmap(f))(batch) equals f(batch[m]) run alone              *)
(*   noninterference  : member m is unchanged when the OTHER members' states / actions change     *)
(*   jit_eager        : compiled evaluation agrees with eager evaluation (away from switching)    *)
(* For the training wrappers Step is fully interpreted: see EpisodeWrappers.tla, where every      *)
(* member of a batch (all with different schedules, one of them possibly poisoned with NaN) must  *)
(* follow the single-member specification.                                                        *)
EXTENDS TraceLib, Integers
CONSTANTS Eps
VARIABLES tid, l
ASSUME InitRegs
Ev == Traces[tid][l]
TraceInit == tid \in 1..NT /\ l = 1
TraceNext == /\ l <= Len(Traces[tid]) /\ l' = l + 1 /\ UNCHANGED tid
             /\ Ev.kind \in {"pointwise", "noninterference", "jit_eager"}
             /\ (Ev.excluded = 0) => Ev.res <= Eps
Progress == Reached(tid, l)
=====================================================================================
