------------------------------- MODULE RunningStatsTrace -------------------------------
(* code -> spec: long random histories of running_statistics.update on integer data.    *)
(* For integer samples count*mean and count*summed_variance are integers, so the        *)
(* recorded floats are sent as those integers (the harness rejects a run whose values    *)
(* are not within 1e-6 of an integer) and must equal what the specification computes.   *)
EXTENDS RunningStats, TraceLib

VARIABLES tid, l
ASSUME InitRegs
tvars == <<vars, tid, l>>

TraceInit == Init /\ tid \in 1..NT /\ l = 1
Ev == Traces[tid][l]
BatchOf(e) == [i \in 1..Len(e.xs) |-> [x |-> e.xs[i], w |-> e.ws[i]]]

TraceNext ==
  /\ l <= Len(Traces[tid]) /\ l' = l + 1 /\ UNCHANGED tid
  /\ \/ Ev.kind = "update" /\ Update(BatchOf(Ev))
     \/ Ev.kind = "sharded" /\ ShardedUpdate(BatchOf(Ev))
  /\ count' = Ev.count
  /\ \A f \in Feat : /\ RMul(mean'[f], R(count')) = R(Ev.s1[f])
                     /\ RMul(m2'[f], R(count')) = R(Ev.q[f])
                     /\ exp'.stdcase[f] = Ev.stdcase[f]

Progress == Reached(tid, l)
=====================================================================================
