------------------------------------ MODULE MomentumTrace ------------------------------------
(* Relational trace acceptance for C04.  The recorder projects real spring / positional        *)
(* rollouts onto integer observables; the laws are stated here:                                 *)
(*   momentum event : res = | dP - M g dt | per axis, in units of 1e-12 of the momentum scale   *)
(*                    (saturated);  free-rooted /\ touches no world geometry  =>  res <= Eps     *)
(*   rest event     : at rest, no gravity, no control, no contact, inside limits                 *)
(*                    => the joint coordinates and velocities do not move (units of 1e-12)      *)
EXTENDS TraceLib, Integers

CONSTANTS Eps
VARIABLES tid, l
ASSUME InitRegs
Ev == Traces[tid][l]
TraceInit == tid \in 1..NT /\ l = 1
Abs(x) == IF x < 0 THEN -x ELSE x

MomentumOk(e) == (e.free_rooted = 1 /\ e.touches_world = 0 /\ e.diverged = 0) =>
                   (Abs(e.res[1]) <= Eps /\ Abs(e.res[2]) <= Eps /\ Abs(e.res[3]) <= Eps)
RestOk(e) == (e.at_rest = 1 /\ e.no_gravity = 1 /\ e.no_ctrl = 1 /\ e.no_contact = 1 /\ e.inside_limits = 1) =>
               (e.dq <= Eps /\ e.dqd <= Eps)

TraceNext == /\ l <= Len(Traces[tid]) /\ l' = l + 1 /\ UNCHANGED tid
             /\ \/ Ev.kind = "momentum" /\ MomentumOk(Ev)
                \/ Ev.kind = "rest" /\ RestOk(Ev)
Progress == Reached(tid, l)
=====================================================================================
