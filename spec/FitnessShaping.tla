----------------------------------- MODULE FitnessShaping -----------------------------------
(* brax/training/agents/es/train.py: centered_rank and wierstra turn a population's fitness    *)
(* values into utilities through ranks obtained by a double (stable) argsort.                  *)
(*   Algorithmic : rank = argsort(argsort(x))           (what the code does)                   *)
(*   Definitional: rank_i = #{j : x_j < x_i, or x_j = x_i and j < i}                           *)
(* TLC checks, for EVERY fitness vector over a small value set (ties included): the two agree, *)
(* ranks are a permutation that preserves strict order, centered ranks are symmetric about 0   *)
(* and invariant under increasing affine maps, Wierstra positions are n - rank.  Every state   *)
(* is replayed into the real functions (the logarithms of the Wierstra utilities are evaluated *)
(* by the harness from the specification's positions).                                         *)
EXTENDS Integers, Sequences, FiniteSets, TLC

CONSTANTS MaxN, Vals
VARIABLES x, out
vars == <<x, out>>
n == Len(x)

\* stable argsort: the permutation p (0-based indices, as in the code) with x[p[1]] <= x[p[2]] <= ..., ties in index order
Before(y, i, j) == y[i] < y[j] \/ (y[i] = y[j] /\ i < j)
Argsort(y) == [k \in 1..Len(y) |-> (CHOOSE i \in 1..Len(y) : Cardinality({j \in 1..Len(y) : Before(y, j, i)}) = k - 1) - 1]
DoubleArgsort(y) == Argsort(Argsort(y))
RankDef(y) == [i \in 1..Len(y) |-> Cardinality({j \in 1..Len(y) : Before(y, j, i)})]

Init == /\ \E m \in 2..MaxN : x \in [1..m -> Vals]
        /\ out = <<>>
Compute ==
  /\ out = <<>>
  /\ LET r == DoubleArgsort(x) IN
     out' = [rank |-> r,
             centered2 |-> [i \in 1..n |-> 2 * r[i] - (n - 1)],        \* centered rank = centered2 / (2 (n - 1))
             wpos |-> [i \in 1..n |-> n - r[i]]]                       \* Wierstra position: 1 = best
  /\ UNCHANGED x
Next == Compute
Spec == Init /\ [][Next]_vars

Done == out # <<>>
AlgorithmicIsDefinitional == Done => out.rank = RankDef(x)
RankIsPermutation == Done => {out.rank[i] : i \in 1..n} = 0..(n - 1)
OrderPreserving == Done => \A i, j \in 1..n : x[i] < x[j] => out.rank[i] < out.rank[j]
CenteredSymmetric == Done =>
  /\ LET RECURSIVE S(_) S(k) == IF k = 0 THEN 0 ELSE S(k - 1) + out.centered2[k] IN S(n) = 0
  /\ \A i \in 1..n : -(n - 1) <= out.centered2[i] /\ out.centered2[i] <= n - 1
  /\ \E i \in 1..n : out.centered2[i] = n - 1
  /\ \E i \in 1..n : out.centered2[i] = -(n - 1)
AffineInvariant == Done => DoubleArgsort([i \in 1..n |-> 3 * x[i] + 1]) = out.rank
BestIsFirst == Done => \A i \in 1..n : (\A j \in 1..n : Before(x, j, i) \/ j = i) => out.wpos[i] = 1
=============================================================================================
