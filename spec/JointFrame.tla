------------------------------------- MODULE JointFrame -------------------------------------
(* The branch space of the joint-frame construction (kinematics.link_to_joint_frame): number   *)
(* of dofs (1/2/3), which positions of the stack are rotational vs translational, handedness,   *)
(* and the orthonormal triad the axes are taken from.  For every pattern of the property's      *)
(* class the specification states what ANY correct frame must satisfy:                          *)
(*   - the frame used for rotations (resp. translations) is orthonormal                         *)
(*   - the given axes sit in the slots of their dofs                                             *)
(*   - parity = handedness of a purely rotational 3-stack, +1 otherwise; the completed frames   *)
(*     of mixed stacks are right-handed                                                          *)
(*   - the third row of a purely rotational / translational 2- or 3-stack is a1 x a2            *)
(* TLC enumerates patterns x triads (all exact rationals) and exports the expected facts.        *)
EXTENDS ModelSpace

VARIABLES pat, triad, exp
vars == <<pat, triad, exp>>

Patterns == { <<"H">>, <<"S">>, <<"H", "H">>, <<"S", "S">>, <<"S", "H">>, <<"H", "H", "H">>, <<"S", "S", "S">>,
              <<"S", "S", "H">> }
Axes == AxisSets[triad]
K == Len(pat)
AllH == \A j \in 1..K : pat[j] = "H"
AllS == \A j \in 1..K : pat[j] = "S"
Det3(a, b, c) == RVDot(RVCross(a, b), c)

Init ==
  /\ pat \in Patterns /\ triad \in 1..NOrtho
  /\ exp = [ang |-> [j \in 1..K |-> IF pat[j] = "H" THEN Axes[j] ELSE RVZero],
            vel |-> [j \in 1..K |-> IF pat[j] = "S" THEN Axes[j] ELSE RVZero],
            rot_frame_orthonormal |-> \E j \in 1..K : pat[j] = "H",
            trans_frame_orthonormal |-> \E j \in 1..K : pat[j] = "S",
            parity |-> IF K = 3 /\ AllH THEN Det3(Axes[1], Axes[2], Axes[3]) ELSE ROne,
            third_rot |-> IF AllH /\ K >= 2 THEN RVCross(Axes[1], Axes[2]) ELSE RVZero,
            third_trans |-> IF AllS /\ K >= 2 THEN RVCross(Axes[1], Axes[2]) ELSE RVZero,
            mixed |-> ~AllH /\ ~AllS]
Next == UNCHANGED vars
Spec == Init /\ [][Next]_vars

\* the class the property quantifies over: the axes of a stack are orthonormal, either handedness
TriadOrthonormal == \A a, b \in 1..3 : RVDot(Axes[a], Axes[b]) = (IF a = b THEN ROne ELSE RZero)
Handed == Det3(Axes[1], Axes[2], Axes[3]) \in {ROne, R(-1)}
ParityIsSign == exp.parity \in {ROne, R(-1)}
=====================================================================================
