------------------------------------- MODULE Equivariance -------------------------------------
(* C05 as commuting diagrams over recorded residuals (units of 1e-12 relative, saturated).        *)
(*  rigid : Step(G s) = G Step(s) for a rigid motion G of the whole contact-free scene (root       *)
(*          poses, root linear velocities and gravity transformed; body-local angular velocity     *)
(*          and non-root joint coordinates untouched).  Compared: link poses and velocities        *)
(*          (leg 1 transformed by G) and non-root q, qd.  Diverged trajectories are counted.       *)
(*  perm  : listing sibling bodies in another order permutes the per-link results                  *)
(*  merge : two mechanically disconnected models in one document evolve as each would alone        *)
EXTENDS TraceLib, Integers

CONSTANTS Eps
VARIABLES tid, l
ASSUME InitRegs
Ev == Traces[tid][l]
TraceInit == tid \in 1..NT /\ l = 1
Square(e) == (e.diverged = 0) => (e.res_pose <= Eps /\ e.res_vel <= Eps /\ e.res_q <= Eps)
TraceNext == /\ l <= Len(Traces[tid]) /\ l' = l + 1 /\ UNCHANGED tid
             /\ Ev.kind \in {"rigid", "perm", "merge"} /\ Square(Ev)
Progress == Reached(tid, l)
=====================================================================================
