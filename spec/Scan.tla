--------------------------------------- MODULE Scan ---------------------------------------
(* brax/scan.py: `tree` regroups the links of a forest by depth, runs one call per level with *)
(* the carry gathered through a parent map, concatenates the per-level outputs and restores    *)
(* link order; `link_types` does the same by joint type.  The specification transcribes that   *)
(* machinery over integer data and checks it against the naive recursive definition           *)
(*      down : y[i] = F(y[parent i], a[i], sum of link i's dof inputs)                         *)
(*      up   : y[i] = F(sum over children c of y[c], a[i], ...)                                *)
(*      types: y[i] = G(type i, a[i], ...)                                                     *)
(* for EVERY forest (parents before children) and EVERY admissible type string up to N links.  *)
EXTENDS Integers, Sequences, FiniteSets, TLC, Prng

CONSTANTS N,          \* maximum number of links (exhaustive part)
          NBig, BigLinks, SeedBase   \* NBig pseudo-random recursive trees with BigLinks single-dof links (wide levels)

VARIABLES parents,    \* parents[i] in 0..i-1 (0 = no parent); links are 1..n
          types,      \* types[i] in {"f", "1", "2", "3"} ; "f" only on roots
          out, phase
vars == <<parents, types, out, phase>>

QW(t) == IF t = "f" THEN 7 ELSE IF t = "1" THEN 1 ELSE IF t = "2" THEN 2 ELSE 3
DW(t) == IF t = "f" THEN 6 ELSE IF t = "1" THEN 1 ELSE IF t = "2" THEN 2 ELSE 3
n == Len(parents)
RECURSIVE DStart(_), Depth(_), QStart(_)
QStart(i) == IF i = 1 THEN 0 ELSE QStart(i - 1) + QW(types[i - 1])
NQ == QStart(n) + QW(types[n])
QOwner(k) == CHOOSE i \in 1..n : QStart(i) < k /\ k <= QStart(i) + QW(types[i])      \* link owning q index k (1-based)
AQ(k) == 7 * k + 3
DStart(i) == IF i = 1 THEN 0 ELSE DStart(i - 1) + DW(types[i - 1])
Depth(i) == IF parents[i] = 0 THEN 0 ELSE 1 + Depth(parents[i])
ND == DStart(n) + DW(types[n])
\* input data: distinct small integers
AL(i) == 2 * i + 1
AD(k) == 5 * k + 2                                 \* k = 1..ND (dof index, 1-based)
DofSum(i) == LET RECURSIVE S(_) S(j) == IF j = 0 THEN 0 ELSE S(j - 1) + AD(DStart(i) + j) IN S(DW(types[i]))
F(carry, i) == 3 * carry + AL(i) + 2 * DofSum(i)   \* the per-link function (carry = 1000 when there is none)
NoCarry == 1000
TypeCode(t) == IF t = "f" THEN 7 ELSE IF t = "1" THEN 11 ELSE IF t = "2" THEN 13 ELSE 17
G(i) == TypeCode(types[i]) * AL(i) + DofSum(i)

\* ---------------------------------------------------------------- naive definitions
RECURSIVE Down(_)
Down(i) == F(IF parents[i] = 0 THEN NoCarry ELSE Down(parents[i]), i)
Children(i) == {c \in 1..n : parents[c] = i}
RECURSIVE Up(_)
Up(i) == LET RECURSIVE S(_) S(c) == IF c = 0 THEN 0 ELSE S(c - 1) + (IF parents[c] = i THEN Up(c) ELSE 0)   \* sum over children
         IN  F(IF Children(i) = {} THEN (IF \E j \in 1..n : Depth(j) > Depth(i) THEN 0 ELSE NoCarry) ELSE S(n), i)

\* ---------------------------------------------------------------- the grouped algorithm (transcribed)
MaxDepth == LET RECURSIVE M(_) M(i) == IF i = 0 THEN 0 ELSE IF Depth(i) > M(i - 1) THEN Depth(i) ELSE M(i - 1) IN M(n)
\* links of a level, in link order  (depth_idxs[depth]['l'])
Level(d) == LET RECURSIVE L(_) L(i) == IF i = 0 THEN <<>> ELSE IF Depth(i) = d THEN Append(L(i - 1), i) ELSE L(i - 1) IN L(n)
IndexOf(s, x) == CHOOSE k \in 1..Len(s) : s[k] = x
\* forward pass: carry of level d-1 gathered through parent_map, one call per level
RECURSIVE LevelDown(_)
LevelDown(d) ==     \* sequence of outputs for Level(d), in level order
  LET lv == Level(d) IN
  IF d = 0 THEN [k \in 1..Len(lv) |-> F(NoCarry, lv[k])]
  ELSE LET prev == LevelDown(d - 1)
           pm == [k \in 1..Len(lv) |-> IndexOf(Level(d - 1), parents[lv[k]])]        \* parent_map
       IN  [k \in 1..Len(lv) |-> F(prev[pm[k]], lv[k])]
\* reverse pass: index_sum of the deeper level's outputs onto this level, one call per level
RECURSIVE LevelUp(_)
LevelUp(d) ==
  LET lv == Level(d) IN
  IF d = MaxDepth THEN [k \in 1..Len(lv) |-> F(NoCarry, lv[k])]
  ELSE LET deeper == LevelUp(d + 1)
           dl == Level(d + 1)
           summed == [k \in 1..Len(lv) |->
                        LET RECURSIVE S(_) S(j) == IF j = 0 THEN 0
                              ELSE S(j - 1) + (IF parents[dl[j]] = lv[k] THEN deeper[j] ELSE 0) IN S(Len(dl))]
       IN  [k \in 1..Len(lv) |-> F(summed[k], lv[k])]
\* concatenate levels and restore link order:  y = take(y, [order.index(i) for i in range(n)])
ConcatLevels(Lv(_), dmax) == LET RECURSIVE C(_) C(d) == IF d < 0 THEN <<>> ELSE C(d - 1) \o Lv(d) IN C(dmax)
Order == ConcatLevels(Level, MaxDepth)
Restore(ys) == [i \in 1..n |-> ys[IndexOf(Order, i)]]

\* link_types: groups ordered by first occurrence of the type
TypeOrder == LET RECURSIVE T(_) T(i) == IF i = 0 THEN <<>>
                 ELSE IF \E k \in 1..Len(T(i - 1)) : T(i - 1)[k] = types[i] THEN T(i - 1) ELSE Append(T(i - 1), types[i]) IN T(n)
Group(t) == LET RECURSIVE L(_) L(i) == IF i = 0 THEN <<>> ELSE IF types[i] = t THEN Append(L(i - 1), i) ELSE L(i - 1) IN L(n)
RECURSIVE ConcatGroups(_)
ConcatGroups(k) == IF k = 0 THEN <<>> ELSE ConcatGroups(k - 1) \o Group(TypeOrder[k])
TypeOrderLinks == ConcatGroups(Len(TypeOrder))
TypesScan == LET ys == [k \in 1..n |-> G(TypeOrderLinks[k])] IN [i \in 1..n |-> ys[IndexOf(TypeOrderLinks, i)]]

\* ---------------------------------------------------------------- index helpers of base.System (0-based, as in the code)
TypeSets == <<{"f"}, {"1"}, {"2"}, {"3"}, {"1", "2", "3"}, {"f", "1", "2", "3"}>>
IndexHelpers ==
  LET ds == [i \in 1..n |-> DStart(i)]
      qs == [i \in 1..n |-> QStart(i)]
      nd == ds[n] + DW(types[n])
      nq == qs[n] + QW(types[n])
      downer == [k \in 1..nd |-> CHOOSE i \in 1..n : ds[i] < k /\ k <= ds[i] + DW(types[i])]    \* link owning dof k
      qowner == [k \in 1..nq |-> CHOOSE i \in 1..n : qs[i] < k /\ k <= qs[i] + QW(types[i])]
      dep == [i \in 1..n |-> Depth(i)]
      \* position of link i among the links of its depth, in link order
      pos == [i \in 1..n |-> Cardinality({j \in 1..(i - 1) : dep[j] = dep[i]})]
      Sel(owner, total, ts) ==      \* coordinates owned by links whose type is in ts, ascending
        LET RECURSIVE S(_) S(k) == IF k = 0 THEN <<>> ELSE IF types[owner[k]] \in ts THEN Append(S(k - 1), k - 1) ELSE S(k - 1)
        IN  S(total)
  IN
  [dof_link |-> [k \in 1..nd |-> downer[k] - 1],
   dof_link_depth |-> [k \in 1..nd |-> pos[downer[k]]],
   dof_ranges |-> [i \in 1..n |-> [j \in 1..DW(types[i]) |-> ds[i] + j - 1]],
   q_idx |-> [c \in 1..Len(TypeSets) |-> Sel(qowner, nq, TypeSets[c])],
   qd_idx |-> [c \in 1..Len(TypeSets) |-> Sel(downer, nd, TypeSets[c])]]

\* ---------------------------------------------------------------- enumeration
TypeSet(p) == IF p = 0 THEN {"f", "1", "2", "3"} ELSE {"1", "2", "3"}
Init ==
  /\ phase = "init" /\ out = <<>>
  /\ \/ \E m \in 1..N :
          /\ parents \in {p \in [1..m -> 0..(m - 1)] : \A i \in 1..m : p[i] < i}
          /\ types \in {t \in [1..m -> {"f", "1", "2", "3"}] : \A i \in 1..m : t[i] \in TypeSet(parents[i])}
     \* bigger forests: levels with several parents that have different numbers of children (parent maps with repeats
     \* and gaps), which small forests cannot contain
     \* wide two-level forests: r roots, root p with cnt[p] in 0..2 children (all count vectors): parent maps that are sorted
     \* with repeats AND gaps, e.g. <<0, 0, 2>> (span = length, yet not contiguous)
     \/ \E r \in 2..4 : \E cnt \in [1..r -> 0..2] :
          LET RECURSIVE Kids(_) Kids(p) == IF p = 0 THEN <<>> ELSE Kids(p - 1) \o [j \in 1..cnt[p] |-> p]
              ps == [i \in 1..r |-> 0] \o Kids(r)
          IN  /\ Len(ps) > r
              /\ parents = ps
              /\ types = [i \in 1..Len(ps) |-> IF i % 3 = 0 THEN "2" ELSE "1"]
     \/ \E k \in 1..NBig :
          LET g == GenV(SeedBase + k, 2 * BigLinks, 97) IN
          /\ parents = [i \in 1..BigLinks |-> IF i = 1 THEN 0 ELSE IF g[i] % 5 = 0 THEN 0 ELSE (g[i] % (i - 1)) + 1]
          /\ types = [i \in 1..BigLinks |-> IF parents[i] = 0 /\ g[BigLinks + i] % 3 = 0 THEN "f"
                                             ELSE <<"1", "1", "2", "3">>[(g[BigLinks + i] % 4) + 1]]

Compute ==
  /\ phase = "init" /\ phase' = "done"
  /\ out' = [down |-> Restore(ConcatLevels(LevelDown, MaxDepth)),
             up   |-> Restore(ConcatLevels(LevelUp, MaxDepth)),
             bytype |-> TypesScan,
             \* a 'q'-typed output of link_types must come back in coordinate order
             bytype_q |-> [k \in 1..NQ |-> TypeCode(types[QOwner(k)]) * AQ(k)],
             idx |-> IndexHelpers]
  /\ UNCHANGED <<parents, types>>
Next == Compute
Spec == Init /\ [][Next]_vars

-------------------------------------------------------------------------------------
Done == phase = "done"
GroupedEqualsNaiveDown == Done => out.down = [i \in 1..n |-> Down(i)]
GroupedEqualsNaiveUp == Done => out.up = [i \in 1..n |-> Up(i)]
TypesScanInLinkOrder == Done => out.bytype = [i \in 1..n |-> G(i)]
\* the index helpers partition the coordinates: every dof belongs to exactly one type's index list, ranges tile 0..ND-1
IndexHelpersPartition == Done =>
  /\ LET all == out.idx.qd_idx[1] \o out.idx.qd_idx[2] \o out.idx.qd_idx[3] \o out.idx.qd_idx[4]
     IN  Len(all) = ND /\ {all[k] : k \in 1..Len(all)} = 0..(ND - 1)
  /\ LET all == out.idx.q_idx[1] \o out.idx.q_idx[2] \o out.idx.q_idx[3] \o out.idx.q_idx[4]
     IN  Len(all) = NQ /\ {all[k] : k \in 1..Len(all)} = 0..(NQ - 1)
  /\ \A i \in 1..n : \A j \in 1..DW(types[i]) : out.idx.dof_link[out.idx.dof_ranges[i][j] + 1] = i - 1
  \* within a level the positions are 0..(size-1): dof_link(depth) is a valid segment id for that level's call
  /\ \A k \in 1..ND : out.idx.dof_link_depth[k] < Len(Level(Depth(out.idx.dof_link[k] + 1)))
OrderIsPermutation == {Order[k] : k \in 1..Len(Order)} = 1..n /\ Len(Order) = n
=====================================================================================
