------------------------------------ MODULE ModelSpace ------------------------------------
(* The model space shared by the physics properties: kinematic forests of 1..MaxLinks links *)
(* (free roots, world-attached roots, children), 1-3 hinge/slide joints stacked per link    *)
(* with orthogonal (either handedness) or skew axes, body / anchor / inertial offsets and   *)
(* orientations, limits, damping, armature, stiffness, actuators.  A model is decoded from  *)
(* a flat genome of small integers (so TLC can enumerate small genomes exhaustively and     *)
(* draw large ones with RandomSubset); every numeric slot is an exact rational taken from   *)
(* decimal-exact tables, so the rendered MJCF carries exactly the specified numbers.        *)
EXTENDS RatAlg, FiniteSets, TLC, Prng

GW == 16                      \* genes per link
GeneVals == 0..11

Gene(g, i, k) == g[(i - 1) * GW + k]

\* ---- tables (all decimal-exact)
Q5(a, b, c, d) == <<RNorm(a, 5), RNorm(b, 5), RNorm(c, 5), RNorm(d, 5)>>
QuatTable == << RQId, Q5(3, 4, 0, 0), Q5(1, 2, 2, 4), <<RNorm(1, 2), RNorm(1, 2), RNorm(1, 2), RNorm(1, 2)>>,
                Q5(4, 0, -3, 0), Q5(2, -4, 1, 2), <<RNorm(1, 10), RNorm(-1, 10), RNorm(7, 10), RNorm(7, 10)>>,
                Q5(0, 0, 3, 4), RQId, Q5(4, 0, 0, 3), RQId, Q5(2, 1, -2, 4) >>
QuatAt(k) == QuatTable[(k % 12) + 1]
Tenth(k) == RNorm(k - 5, 10)                                   \* gene 0..11 -> -0.5 .. 0.6
PosAt(a, b, c) == <<Tenth(a), Tenth(b), Tenth(c)>>

X == <<ROne, RZero, RZero>>
Y == <<RZero, ROne, RZero>>
Z == <<RZero, RZero, ROne>>
\* columns of the rotation matrix of (1,2,2,4)/5 : a rotated orthonormal right-handed triad
T1 == RRot(X, Q5(1, 2, 2, 4))
T2 == RRot(Y, Q5(1, 2, 2, 4))
T3 == RRot(Z, Q5(1, 2, 2, 4))
U1 == <<RNorm(3, 5), RNorm(4, 5), RZero>>
U2 == <<RZero, RNorm(3, 5), RNorm(4, 5)>>
U3 == <<RNorm(2, 3), RNorm(-1, 3), RNorm(2, 3)>>
\* axis triads: 1-6 world-aligned (right- and left-handed), 7-8 rotated orthonormal (right / left), 9-10 with a sign
\* flip, 11-12 skew (non-orthogonal)
AxisSets == << <<X, Y, Z>>, <<Y, Z, X>>, <<Z, X, Y>>, <<X, Z, Y>>, <<Y, X, Z>>, <<Z, Y, X>>,
               <<T1, T2, T3>>, <<T2, T1, T3>>, <<RVNeg(X), Y, Z>>, <<T3, RVNeg(T2), T1>>,
               <<U1, Y, U2>>, <<U3, U1, Z>> >>
NOrtho == 10
IsOrthoSet(k) == k <= NOrtho

Anchors == << RVZero, <<RNorm(1, 10), RNorm(-1, 5), RNorm(3, 10)>>, RVZero, <<RZero, RNorm(1, 4), RZero>> >>
Diags == << <<RNorm(1, 10), RNorm(1, 5), RNorm(3, 10)>>, <<RNorm(1, 5), RNorm(1, 5), RNorm(1, 5)>>,
            <<RNorm(1, 2), RNorm(1, 4), RNorm(1, 2)>> >>
Masses == << ROne, RNorm(3, 2), R(2), RNorm(1, 2) >>

\* ---- classes restrict the space to what a property quantifies over
\*  "any"    : everything
\*  "ortho"  : orthogonal stacks; one joint kind per stack, or slides followed by one hinge   (C08)
\*  "simple" : single joint per link, anchored at the link origin                            (velocity clause of C01)
\*  "freeroot": like "any" but every root body is free-floating                              (C04, C05)
CONSTANT Class

StackOf(len, bits) ==   \* joint kinds of a stack: bit j of `bits` set -> hinge, else slide
  [j \in 1..len |-> IF (bits \div (2 ^ (j - 1))) % 2 = 1 THEN "H" ELSE "S"]

OrthoPatterns == << <<"H">>, <<"S">>, <<"H", "H">>, <<"S", "S">>, <<"S", "H">>, <<"H", "H", "H">>, <<"S", "S", "S">>,
                    <<"S", "S", "H">> >>

\* Links are numbered in document (depth-first pre-order) order, as the reference engine numbers bodies:
\* the parent of link i is link i-1, one of its ancestors, or the world.
RECURSIVE ParentOf(_, _), PathOf(_, _)
PathOf(g, i) == IF i = 0 THEN <<0>> ELSE <<i>> \o PathOf(g, ParentOf(g, i))
ParentOf(g, i) == IF i = 1 THEN 0 ELSE LET p == PathOf(g, i - 1) IN p[(Gene(g, i, 1) % Len(p)) + 1]

DecodeLink(g, i) ==
  LET parent  == ParentOf(g, i)                                  \* 0 = world, else link i-1 or one of its ancestors
      free    == parent = 0 /\ (Class = "freeroot" \/ Gene(g, i, 2) % 3 = 0)
      len     == IF Class = "simple" THEN 1 ELSE (Gene(g, i, 3) % 3) + 1
      kinds   == IF Class = "ortho" THEN OrthoPatterns[((Gene(g, i, 3) + 3 * (Gene(g, i, 4) % 3)) % 8) + 1]
                 ELSE StackOf(len, Gene(g, i, 4) % 8)
      setid   == IF Class = "ortho" THEN (Gene(g, i, 5) % NOrtho) + 1 ELSE (Gene(g, i, 5) % 12) + 1
      axes    == AxisSets[setid]
      flags   == Gene(g, i, 11)
      joint(j) == [kind |-> kinds[j], axis |-> axes[j],
                   limited |-> (flags + j) % 3 = 0,
                   lo |-> RNorm(-5, 2), hi |-> RNorm(5, 2),
                   damping |-> IF (flags + j) % 2 = 0 THEN RNorm(1, 2) ELSE RZero,
                   armature |-> IF ((flags \div 2) + j) % 2 = 0 THEN RNorm(1, 10) ELSE RZero,
                   stiffness |-> IF ((flags \div 4) + j) % 3 = 0 THEN R(2) ELSE RZero]
  IN  [parent |-> parent,
       root   |-> IF free THEN "free" ELSE "joints",
       pos    |-> PosAt(Gene(g, i, 6), Gene(g, i, 7), Gene(g, i, 8)),
       quat   |-> QuatAt(Gene(g, i, 9)),
       anchor |-> IF free \/ Class = "simple" THEN RVZero ELSE Anchors[(Gene(g, i, 10) % 4) + 1],
       stack  |-> IF free THEN <<>> ELSE [j \in 1..Len(kinds) |-> joint(j)],
       axisset |-> IF free THEN 0 ELSE setid,
       mass   |-> Masses[(Gene(g, i, 12) % 4) + 1],
       diag   |-> Diags[(Gene(g, i, 13) % 3) + 1],
       ipos   |-> IF Gene(g, i, 14) % 2 = 0 THEN RVZero ELSE <<RNorm(1, 10), RZero, RNorm(-1, 10)>>,
       iquat  |-> QuatAt(Gene(g, i, 15)),
       \* link 1 always carries a geom (every generator model has at least one geom)
       geom   |-> IF i = 1 THEN (Gene(g, i, 16) % 3) + 1 ELSE Gene(g, i, 16) % 4]          \* 0 none, 1 sphere, 2 capsule, 3 box (non-colliding unless a check enables it)

DecodeModel(g, n) == [links |-> [i \in 1..n |-> DecodeLink(g, i)]]

\* genomes are derived from integer seeds (see Prng.tla); SeedBase distinguishes runs
CONSTANT SeedBase
GenomesK(cnt, K) == {Gen(SeedBase + k, K) : k \in 1..cnt}
Genomes(cnt, n) == GenomesK(cnt, n * GW)

\* ---- structure helpers (used by every physics specification)
NLinks(m) == Len(m.links)
QWidth(l) == IF l.root = "free" THEN 7 ELSE Len(l.stack)
DWidth(l) == IF l.root = "free" THEN 6 ELSE Len(l.stack)
RECURSIVE QStart(_, _), DStart(_, _)
QStart(m, i) == IF i = 1 THEN 0 ELSE QStart(m, i - 1) + QWidth(m.links[i - 1])     \* 0-based offset of link i's q
DStart(m, i) == IF i = 1 THEN 0 ELSE DStart(m, i - 1) + DWidth(m.links[i - 1])
NQ(m) == QStart(m, NLinks(m)) + QWidth(m.links[NLinks(m)])
NV(m) == DStart(m, NLinks(m)) + DWidth(m.links[NLinks(m)])
LinkType(l) == IF l.root = "free" THEN "f" ELSE ToString(Len(l.stack))

\* the model's 1-dof joints in coordinate order, as <<link, index in stack>>
RECURSIVE SitesSeq(_, _)
SitesSeq(m, i) == IF i = 0 THEN <<>>
                  ELSE SitesSeq(m, i - 1) \o (IF m.links[i].root = "joints"
                                                THEN [j \in 1..Len(m.links[i].stack) |-> <<i, j>>] ELSE <<>>)
RECURSIVE IsAncestorOrSelf(_, _, _)
IsAncestorOrSelf(m, a, i) == i # 0 /\ (a = i \/ IsAncestorOrSelf(m, a, m.links[i].parent))

WellFormed(m) ==
  /\ \A i \in 1..NLinks(m) : m.links[i].parent < i
  \* document order: the parent of link i is on the root path of link i-1 (or the world)
  /\ \A i \in 2..NLinks(m) : m.links[i].parent = 0 \/ IsAncestorOrSelf(m, m.links[i].parent, i - 1)
  /\ \A i \in 1..NLinks(m) : m.links[i].root = "free" => (m.links[i].parent = 0 /\ m.links[i].stack = <<>>)
  /\ \A i \in 1..NLinks(m) : m.links[i].root = "joints" => Len(m.links[i].stack) \in 1..3
  /\ \A i \in 1..NLinks(m) : RQNorm2(m.links[i].quat) = ROne
  /\ \A i \in 1..NLinks(m) : \A j \in 1..Len(m.links[i].stack) : RVDot(m.links[i].stack[j].axis, m.links[i].stack[j].axis) = ROne
=====================================================================================
