------------------------------------- MODULE Actuator -------------------------------------
(* Joint force produced by motor / position / velocity actuators (reference engine's model): *)
(*   ClipCtrl -> gain * ctrl + gear * (q * bias_q + qd * bias_qd) -> ClipForce -> * gear ->   *)
(*   scatter-ADD onto the actuated dof.                                                       *)
(* Exact rationals; controls include values exactly on the range bounds.                      *)
EXTENDS ModelSpace

CONSTANTS MaxLinks, NCases

VARIABLES model, acts, st, out, phase
vars == <<model, acts, st, out, phase>>

NONE == <<>>
Gears == << ROne, R(2), R(-1), RNorm(1, 2), R(3), ROne >>
Kps == << ROne, R(2), RNorm(1, 2) >>
CtrlRanges == << NONE, <<R(-1), ROne>>, <<R(-2), RNorm(1, 2)>>, NONE >>
ForceRanges == << NONE, <<R(-1), ROne>>, <<RNorm(-3, 2), R(2)>>, NONE, <<RNorm(-1, 2), RNorm(1, 2)>> >>
Half(k) == RNorm(k, 2)

AG == 7   \* genes per actuator
MaxActs == 6

DecodeActs(m, g, o) ==        \* genes g[o+1 ..]
  LET jl == SitesSeq(m, NLinks(m))
      n  == IF jl = <<>> THEN 0 ELSE g[o + 1] % (MaxActs + 1)
  IN  [k \in 1..n |->
        LET b == o + 1 + (k - 1) * AG
            kind == <<"motor", "position", "velocity">>[(g[b + 1] % 3) + 1]
            gain == Kps[(g[b + 2] % 3) + 1]
        IN  [kind |-> kind,
             site |-> jl[(g[b + 3] % Len(jl)) + 1],
             gear |-> Gears[(g[b + 4] % 6) + 1],
             gain |-> IF kind = "motor" THEN ROne ELSE gain,                  \* gainprm[0]: 1, kp, kv
             biasq |-> IF kind = "position" THEN RNeg(gain) ELSE RZero,       \* biasprm[1] = -kp
             biasqd |-> IF kind = "velocity" THEN RNeg(gain) ELSE RZero,      \* biasprm[2] = -kv
             ctrlrange |-> CtrlRanges[(g[b + 5] % 4) + 1],
             forcerange |-> ForceRanges[(g[b + 6] % 5) + 1],
             \* an unlimited actuator may still carry a (disabled) range attribute in the document
             stale |-> g[b + 7] % 3 = 0]]

\* state: ctrl per actuator (halves in [-3, 3]), q and qd per 1-dof joint (halves in [-2, 2])
DecodeState(m, a, g, o) ==
  LET nj == Len(SitesSeq(m, NLinks(m))) IN
  [ctrl |-> [k \in 1..Len(a) |-> Half((g[o + k] % 13) - 6)],
   q    |-> [j \in 1..nj |-> Half((g[o + 8 + j] % 9) - 4)],
   qd   |-> [j \in 1..nj |-> Half((g[o + 20 + j] % 9) - 4)]]

GLen(n) == n * GW + 1 + MaxActs * AG + 32

\* ---- the staged computation
Clip(x, rng) == IF rng = NONE THEN x ELSE RMax(rng[1], RMin(rng[2], x))
JointIndex(m, s) == CHOOSE j \in 1..Len(SitesSeq(m, NLinks(m))) : SitesSeq(m, NLinks(m))[j] = s
ActForce(m, a, ctrl, s) ==       \* joint-space force of one actuator, before scattering
  LET j  == JointIndex(m, a.site)
      u  == Clip(ctrl, a.ctrlrange)
      b  == RMul(a.gear, RAdd(RMul(s.q[j], a.biasq), RMul(s.qd[j], a.biasqd)))
      f  == Clip(RAdd(RMul(a.gain, u), b), a.forcerange)
  IN  RMul(f, a.gear)

QdId(m, site) == DStart(m, site[1]) + site[2] - 1
QId(m, site) == QStart(m, site[1]) + site[2] - 1

RECURSIVE SumOn(_, _, _, _, _)
SumOn(m, a, ctrls, s, d) ==      \* sum of the forces of actuators 1..Len(a) whose dof is d  (recursion on a prefix)
  IF a = <<>> THEN RZero
  ELSE LET k == Len(a)
           rest == SumOn(m, SubSeq(a, 1, k - 1), ctrls, s, d)
       IN  IF QdId(m, a[k].site) = d THEN RAdd(rest, ActForce(m, a[k], ctrls[k], s)) ELSE rest

Tau(m, a, ctrls, s) == [d \in 0..(NV(m) - 1) |-> SumOn(m, a, ctrls, s, d)]

Init ==
  /\ phase = "init" /\ out = <<>>
  /\ \E n \in 1..MaxLinks : \E g \in GenomesK(NCases, GLen(n)) :
       /\ model = DecodeModel(g, n)
       /\ acts = DecodeActs(model, g, n * GW)
       /\ st = DecodeState(model, acts, g, n * GW + 1 + MaxActs * AG)

Bump(c, k) == [c EXCEPT ![k] = RAdd(c[k], RNorm(1, 2))]

Compute ==
  /\ phase = "init" /\ phase' = "done"
  /\ out' = [tau |-> Tau(model, acts, st.ctrl, st),
             \* tau with control k raised by 1/2 (monotonicity / saturation witnesses)
             bumped |-> [k \in 1..Len(acts) |-> Tau(model, acts, Bump(st.ctrl, k), st)],
             qid |-> [k \in 1..Len(acts) |-> QId(model, acts[k].site)],
             qdid |-> [k \in 1..Len(acts) |-> QdId(model, acts[k].site)]]
  /\ UNCHANGED <<model, acts, st>>

Next == Compute
Spec == Init /\ [][Next]_vars

-------------------------------------------------------------------------------------
Done == phase = "done"
Actuated == {QdId(model, acts[k].site) : k \in 1..Len(acts)}
UnactuatedGetZero == Done => \A d \in 0..(NV(model) - 1) : d \notin Actuated => out.tau[d] = RZero
\* forces of several actuators on one joint add: the total equals the sum of each actuator acting alone
RECURSIVE SumSingles(_, _)
SumSingles(k, d) == IF k = 0 THEN RZero
                    ELSE RAdd(SumSingles(k - 1, d), Tau(model, <<acts[k]>>, <<st.ctrl[k]>>, st)[d])
ForcesAdd == Done => \A d \in 0..(NV(model) - 1) : out.tau[d] = SumSingles(Len(acts), d)
MonotoneInControl ==
  Done => \A k \in 1..Len(acts) :
            LET d == QdId(model, acts[k].site) IN
            (RLt(RZero, acts[k].gain) /\ RLt(RZero, acts[k].gear)) => RLe(out.tau[d], out.bumped[k][d])
ConstantOutsideCtrlRange ==
  Done => \A k \in 1..Len(acts) :
            (acts[k].ctrlrange # NONE /\ RLe(acts[k].ctrlrange[2], st.ctrl[k])) => out.bumped[k] = out.tau
ModelWellFormed == WellFormed(model)
=====================================================================================
