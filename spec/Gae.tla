------------------------------------- MODULE Gae -------------------------------------
(* Generalized advantage estimation, one trajectory column.                            *)
(*  Definitional : the defining sums (what the property states).                       *)
(*  Algorithmic  : the reverse scan of ppo/losses.py compute_gae, as a state machine.  *)
(* TLC checks Algorithmic = Definitional for every mask pattern and lattice data; the  *)
(* final states (inputs + expected outputs) are replayed into the real compute_gae.    *)
EXTENDS Dyadic, Sequences, TLC, Randomization

CONSTANTS TSet,      \* trajectory lengths explored
          Coefs,     \* set of dyadic values for lambda and discount
          NData,     \* number of random data vectors per (T, mask)
          NMask,     \* 0: all 3^T mask patterns; n > 0: n random patterns per T (long trajectories)
          Vals       \* lattice for rewards / values / bootstrap (integers)

VARIABLES T, term, trunc, r, V, boot, lam, gam,   \* inputs
          pos, acc, vsmv,                          \* scan state: position, carry, outputs so far
          phase, vs, adv                           \* results

vars == <<T, term, trunc, r, V, boot, lam, gam, pos, acc, vsmv, phase, vs, adv>>

Masks(n) == {m \in [1..n -> {<<0, 0>>, <<1, 0>>, <<0, 1>>}] : TRUE}   \* <<termination, truncation>>, exclusive

Init ==
  /\ T \in TSet
  /\ \E m \in (IF NMask = 0 THEN Masks(T) ELSE RandomSubset(NMask, Masks(T))) : term = [i \in 1..T |-> m[i][1]] /\ trunc = [i \in 1..T |-> m[i][2]]
  /\ r \in RandomSubset(NData, [1..T -> Vals])
  /\ V \in RandomSubset(NData, [1..T -> Vals])
  /\ boot \in Vals
  /\ lam \in Coefs /\ gam \in Coefs
  /\ pos = T /\ acc = DZero /\ vsmv = [i \in 1..T |-> DZero]
  /\ phase = "scan" /\ vs = <<>> /\ adv = <<>>

\* ---------------------------------------------------------------- algorithmic (the code)
Vnext(i) == IF i = T THEN D(boot) ELSE D(V[i + 1])                    \* values_t_plus_1
Delta(i) == DMul(DSub(DAdd(D(r[i]), DMul(DMul(gam, D(1 - term[i])), Vnext(i))), D(V[i])),
                 D(1 - trunc[i]))                                      \* deltas * truncation_mask

ScanStep ==
  /\ phase = "scan" /\ pos >= 1
  /\ LET a == DAdd(Delta(pos), DMul(DMul(DMul(DMul(gam, D(1 - term[pos])), D(1 - trunc[pos])), lam), acc))
     IN  acc' = a /\ vsmv' = [vsmv EXCEPT ![pos] = a]
  /\ pos' = pos - 1
  /\ UNCHANGED <<T, term, trunc, r, V, boot, lam, gam, phase, vs, adv>>

Finish ==
  /\ phase = "scan" /\ pos = 0
  /\ LET vs1 == [i \in 1..T |-> DAdd(vsmv[i], D(V[i]))]
         nxt(i) == IF i = T THEN D(boot) ELSE vs1[i + 1]
     IN  /\ vs' = vs1
         /\ adv' = [i \in 1..T |-> DMul(DSub(DAdd(D(r[i]), DMul(DMul(gam, D(1 - term[i])), nxt(i))), D(V[i])),
                                        D(1 - trunc[i]))]
  /\ phase' = "done"
  /\ UNCHANGED <<T, term, trunc, r, V, boot, lam, gam, pos, acc, vsmv>>

Next == ScanStep \/ Finish
Spec == Init /\ [][Next]_vars

\* ---------------------------------------------------------------- definitional (the property)
RECURSIVE DPow(_, _)
DPow(a, n) == IF n = 0 THEN DOne ELSE DMul(a, DPow(a, n - 1))

\* the episode continues from step i to step i+1 iff neither terminated nor truncated at i
RECURSIVE Alive(_, _)
Alive(t, l) == IF l = 0 THEN 1 ELSE Alive(t, l - 1) * (1 - term[t + l - 1]) * (1 - trunc[t + l - 1])

TdError(i) == IF trunc[i] = 1 THEN DZero                               \* nothing is contributed at a truncated step
              ELSE DSub(DAdd(D(r[i]), IF term[i] = 1 THEN DZero ELSE DMul(gam, Vnext(i))), D(V[i]))

RECURSIVE AdvSum(_, _)
AdvSum(t, l) ==  \* sum_{j = 0..l} (gam lam)^j Alive(t, j) TdError(t + j)
  LET term_l == DMul(DMul(DPow(DMul(gam, lam), l), D(Alive(t, l))), TdError(t + l))
  IN  IF l = 0 THEN term_l ELSE DAdd(AdvSum(t, l - 1), term_l)

DefVs(t) == DAdd(AdvSum(t, T - t), D(V[t]))
DefVsNext(t) == IF t = T THEN D(boot) ELSE DefVs(t + 1)
DefAdv(t) == IF trunc[t] = 1 THEN DZero
             ELSE DSub(DAdd(D(r[t]), IF term[t] = 1 THEN DZero ELSE DMul(gam, DefVsNext(t))), D(V[t]))

AlgorithmicIsDefinitional ==
  phase = "done" => /\ \A t \in 1..T : vs[t] = DefVs(t)
                    /\ \A t \in 1..T : adv[t] = DefAdv(t)

\* corollaries, each a separate invariant
NothingAtTruncatedStep == phase = "done" => \A t \in 1..T : trunc[t] = 1 => (adv[t] = DZero /\ vs[t] = D(V[t]))
NoAccumulationAcrossEpisodeEnd ==   \* at a terminated or truncated step the target ignores everything after it
  phase = "done" => \A t \in 1..T : (term[t] = 1) => vs[t] = D(r[t])
BootstrapExceptAcrossTermination ==
  (phase = "done" /\ term[T] = 0 /\ trunc[T] = 0) => vs[T] = DAdd(DSub(D(r[T]), D(V[T])), DAdd(DMul(gam, D(boot)), D(V[T])))

Done == phase = "done"

ValsSmall == -2..2
ValsWide == -5..5
CoefsHalf == {<<0, 0>>, <<1, 1>>, <<1, 0>>}                        \* 0, 1/2, 1
CoefsQuarter == {<<0, 0>>, <<1, 2>>, <<1, 1>>, <<3, 2>>, <<1, 0>>}   \* 0, 1/4, 1/2, 3/4, 1
=====================================================================================
