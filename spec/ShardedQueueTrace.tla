------------------------------ MODULE ShardedQueueTrace -----------------------------
EXTENDS ShardedQueue, TraceLib
VARIABLES tid, l
ASSUME InitRegs
tvars == <<vars, tid, l>>
TraceInit == Init /\ tid \in 1..NT /\ l = 1
Ev == Traces[tid][l]
Ret(e) == IF e.res = "batch" THEN <<"batch", e.ids>> ELSE <<e.res>>
InsertEv == Ev.op = "insert" /\ Insert(Ev.k) /\ out' = <<Ev.res>> /\ sz' = Ev.size
SampleEv == Ev.op = "sample" /\ Sample /\ out' = Ret(Ev) /\ sz' = Ev.size
TraceNext == /\ l <= Len(Traces[tid]) /\ l' = l + 1 /\ UNCHANGED tid
             /\ (InsertEv \/ SampleEv)
Progress == Reached(tid, l)
=====================================================================================
