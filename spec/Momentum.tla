-------------------------------------- MODULE Momentum --------------------------------------
(* Why internal forces cannot change total linear momentum, as a design-level state machine:   *)
(* every stage of a spring / positional step that acts between bodies applies +f to one link    *)
(* and -f to its partner (joint and actuator forces: child / parent via segment_sum by parent   *)
(* index; contacts: the two owners); gravity adds m_i g dt to every link.  TLC checks on every   *)
(* free-rooted forest up to N links and impulses from a small integer set that the bookkeeping  *)
(* implies   sum p = sum p0 + (steps) * M * g * dt .   (1-D momenta: the law is per axis.)       *)
EXTENDS Integers, Sequences, FiniteSets, TLC

CONSTANTS N, Forces, MaxStages

VARIABLES parents, mass, p, p0, ngrav, nst
vars == <<parents, mass, p, p0, ngrav, nst>>
ForceSet == {-2, 1, 3}
G == -3                         \* g * dt in the model's units
n == Len(parents)
Sum(f) == LET RECURSIVE S(_) S(i) == IF i = 0 THEN 0 ELSE S(i - 1) + f[i] IN S(Len(f))

Init ==
  /\ \E m \in 1..N : parents \in {q \in [1..m -> 0..(m - 1)] : \A i \in 1..m : q[i] < i}
  /\ mass = [i \in 1..n |-> 1 + (i % 3)]
  /\ p = [i \in 1..n |-> (2 * i) - 3] /\ p0 = p
  /\ ngrav = 0 /\ nst = 0

\* xf_i = fc - segment_sum(fp, parent): each non-root link i gets +f[i], its parent gets -f[i]
JointStage ==
  \E f \in [1..n -> Forces] :
    /\ p' = [i \in 1..n |-> p[i] + (IF parents[i] = 0 THEN 0 ELSE f[i])
                              - Sum([c \in 1..n |-> IF parents[c] = i THEN f[c] ELSE 0])]
    /\ UNCHANGED <<parents, mass, p0, ngrav>> /\ nst' = nst + 1
\* a contact between two links applies (imp, -imp)
ContactStage ==
  \E a, b \in 1..n : \E imp \in Forces :
    /\ a # b
    /\ p' = [p EXCEPT ![a] = p[a] + imp, ![b] = p[b] - imp]
    /\ UNCHANGED <<parents, mass, p0, ngrav>> /\ nst' = nst + 1
GravityStage ==
  /\ p' = [i \in 1..n |-> p[i] + mass[i] * G]
  /\ ngrav' = ngrav + 1 /\ nst' = nst + 1 /\ UNCHANGED <<parents, mass, p0>>

Next == JointStage \/ ContactStage \/ GravityStage
Spec == Init /\ [][Next]_vars
Bound == nst <= MaxStages

MomentumLaw == Sum(p) = Sum(p0) + ngrav * Sum(mass) * G
=====================================================================================
