------------------------------------ MODULE Kinematics ------------------------------------
(* Forward kinematics of a ModelSpace model, with the reference engine's semantics, over     *)
(* exact rationals.  Bodies are placed parent-before-child; within a body the joints of the   *)
(* stack are applied in order:                                                                *)
(*   slide : translate along the axis expressed in the CURRENT body frame                     *)
(*   hinge : rotate about the axis through the anchor; the anchor stays fixed                 *)
(*   free  : position and orientation are the coordinates themselves                          *)
(* Hinge coordinates are given as rational half-angle pairs (c, s), q = 2 atan2(s, c).        *)
(* Velocities are specified for the class the property claims: free links and links attached *)
(* by a single joint anchored at the link origin, all ancestors likewise.                    *)
EXTENDS KinematicsOps

CONSTANTS MaxLinks, NModels, NPoses, Budget

VARIABLES model, pose, out, phase
vars == <<model, pose, out, phase>>

Init ==
  /\ phase = "init" /\ out = <<>>
  /\ \E n \in 1..MaxLinks :
       \E g \in Genomes(NModels, n) :
         /\ model = DecodeModel(g, n)
         /\ \E k \in 1..NPoses : pose = DecodePose(model, Gen(SeedBase + 7919 * k + g[1] + 13 * g[5] + 101 * g[9], n * PGW))
  /\ WithinBudget(model, pose, Budget)

Compute ==
  /\ phase = "init" /\ phase' = "done"
  /\ out' = [x |-> [i \in 1..NLinks(model) |-> WorldFrame(model, pose, i)],
             velclass |-> [i \in 1..NLinks(model) |-> InVelClass(model, i)],
             xd |-> [i \in 1..NLinks(model) |-> IF InVelClass(model, i) THEN WorldVel(model, pose, i)
                                                 ELSE [ang |-> RVZero, vel |-> RVZero]]]
  /\ UNCHANGED <<model, pose>>

Next == Compute
Spec == Init /\ [][Next]_vars

-------------------------------------------------------------------------------------
ModelWellFormed == WellFormed(model)
UnitRotations == phase = "done" => \A i \in 1..NLinks(model) : RQNorm2(out.x[i].rot) = ROne

\* a hinge leaves its anchor point fixed in the world (the defining property of a revolute joint)
\* and a model at the zero pose is just the composition of the body frames
Done == phase = "done"
=====================================================================================
