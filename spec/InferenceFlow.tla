------------------------------------ MODULE InferenceFlow ------------------------------------
(* The PPO inference function as a dataflow protocol.  Arrays are abstracted to digests (small  *)
(* integers interned by the recorder); the automaton says which value must flow where:          *)
(*   Call(obs, key, det, stats, params)                                                         *)
(*   ApplyCall(stats, params, obs)          the policy network gets the supplied statistics,    *)
(*                                          parameters and the observations                     *)
(*   Preprocess(obs, stats) -> pre          the observations are normalised with THOSE stats    *)
(*   ApplyRet -> logits                                                                         *)
(*   det : Mode(logits) -> m ; Return(action = m, no extras), and nothing is sampled            *)
(*   else: Sample(logits, key) -> raw ; LogProb(logits, raw) -> lp ; Postprocess(raw) -> a      *)
(*         (LogProb and Postprocess in either order) ; Return(a, lp, raw)                       *)
(* Recorded call sequences are validated as behaviours (TraceLib); the log-probability must be   *)
(* taken of the PRE-squash action, not of the squashed one.                                      *)
EXTENDS TraceLib, FiniteSets, Integers

VARIABLES tid, l, pc, c
\* c : the data of the current call [obs, key, det, stats, params, pre, logits, raw, lp, act, mode]
tvars == <<tid, l, pc, c>>
ASSUME InitRegs

Ev == Traces[tid][l]
NoVal == -1

TraceInit == tid \in 1..NT /\ l = 1 /\ pc = "idle" /\ c = [x \in {} |-> 0]

Adv == l <= Len(Traces[tid]) /\ l' = l + 1 /\ UNCHANGED tid

Call == /\ pc = "idle" /\ Ev.ev = "call"
        /\ c' = [obs |-> Ev.obs, key |-> Ev.key, det |-> Ev.det, stats |-> Ev.stats, params |-> Ev.params,
                 pre |-> NoVal, logits |-> NoVal, raw |-> NoVal, lp |-> NoVal, act |-> NoVal, mode |-> NoVal]
        /\ pc' = "called"
ApplyCall == /\ pc = "called" /\ Ev.ev = "apply_call"
             /\ Ev.stats = c.stats /\ Ev.params = c.params /\ Ev.obs = c.obs
             /\ pc' = "applying" /\ UNCHANGED c
Preprocess == /\ pc = "applying" /\ Ev.ev = "preprocess"
              /\ Ev.obs = c.obs /\ Ev.stats = c.stats
              /\ c' = [c EXCEPT !.pre = Ev.out] /\ pc' = "preprocessed"
\* the logits are those of the policy network on the normalised POLICY entry of the observation (Ev.ref is computed by an
\* independently constructed policy network with the same parameters)
ApplyRet == /\ pc = "preprocessed" /\ Ev.ev = "apply_ret"
            /\ Ev.out = Ev.ref
            /\ c' = [c EXCEPT !.logits = Ev.out] /\ pc' = "logits"
Mode == /\ pc = "logits" /\ c.det = 1 /\ Ev.ev = "mode" /\ Ev.logits = c.logits
        /\ c' = [c EXCEPT !.mode = Ev.out] /\ pc' = "moded"
Sample == /\ pc = "logits" /\ c.det = 0 /\ Ev.ev = "sample_no_post"
          /\ Ev.logits = c.logits /\ Ev.key = c.key
          /\ c' = [c EXCEPT !.raw = Ev.out] /\ pc' = "sampled"
LogProb == /\ pc = "sampled" /\ c.lp = NoVal /\ Ev.ev = "log_prob"
           /\ Ev.logits = c.logits /\ Ev.actions = c.raw          \* of the pre-squash action
           /\ c' = [c EXCEPT !.lp = Ev.out] /\ UNCHANGED pc
Postprocess == /\ pc = "sampled" /\ c.act = NoVal /\ Ev.ev = "postprocess"
               /\ Ev.x = c.raw
               /\ c' = [c EXCEPT !.act = Ev.out] /\ UNCHANGED pc
Return == /\ Ev.ev = "return"
          /\ \/ /\ pc = "moded" /\ Ev.action = c.mode /\ Ev.nextras = 0
             \/ /\ pc = "sampled" /\ c.lp # NoVal /\ c.act # NoVal
                /\ Ev.action = c.act /\ Ev.log_prob = c.lp /\ Ev.raw_action = c.raw /\ Ev.nextras = 2
          /\ pc' = "idle" /\ UNCHANGED c

\* any other member of the distribution may be used on the way (the recorder logs it); what is constrained is which VALUE
\* reaches log_prob, postprocess and the caller
Other == Ev.ev = "other" /\ UNCHANGED <<pc, c>>

TraceNext == Adv /\ (Call \/ ApplyCall \/ Preprocess \/ ApplyRet \/ Mode \/ Sample \/ LogProb \/ Postprocess \/ Return \/ Other)
Progress == Reached(tid, l)
=====================================================================================
