#!/bin/sh
# usage: tools/regen_evidence.sh [ids...]   -- runs the quick tier of every check against /repo's working tree (must be clean),
# validates each evidence file against the schema and regenerates MANIFEST.json.  Evidence that is committed comes from here.
cd "$(dirname "$0")/.."
git -C /repo diff --quiet || { echo "/repo has uncommitted changes"; exit 2; }
ids=${*:-"C01 C02 C04 C05 C06 C07 C08 C09 C10 C11 C13 C14 C15 C16 C17 C18 C19 C20 X01 X02 X03 X04 X05 X06 X07"}
bad=0
for p in $ids; do
  t0=$(date +%s)
  ./check $p --tier quick > .work/regen_$p.log 2>&1
  rc=$?
  t1=$(date +%s)
  echo "$p rc=$rc wall=$((t1-t0))s viol=$(grep -c '^VIOLATION' .work/regen_$p.log) known=$(grep -c '^KNOWN-FINDING' .work/regen_$p.log)"
  [ $rc -eq 0 ] || bad=1
  python3-vt -c "import json,jsonschema,sys;jsonschema.validate(json.load(open(('evidence_extensions' if '$p'.startswith('X') else 'evidence') + '/$p.json')),json.load(open('/root/.vp/EVIDENCE.schema.json')))" || { echo "evidence/$p.json INVALID"; bad=1; }
done
python3 tools/manifest.py || bad=1
exit $bad
