#!/usr/bin/env python3
"""Regenerates DESIGN.md section 12.5 (seeded changes vs checks) from seeded/*/meta.json."""
import glob
import json
import os
import re

ROOT = os.path.dirname(os.path.dirname(os.path.abspath(__file__)))


def before(m):
  k = 'caught_by_the_check_as_it_was_before_this_change_was_known'
  if k in m:
    return m[k]
  d = m['detected_by']
  return 'no' if ('MISSED' in d or d.startswith('caught after') or d.startswith('hardened')) else 'yes'


def key(name):
  pid, rest = name.split('-', 1)
  m = re.match(r'r(\d+)-', rest)
  return (pid, int(m.group(1)) if m else 1, int(rest.split('-')[-1]))


def main():
  rows = []
  for f in glob.glob(os.path.join(ROOT, 'seeded', '*', 'meta.json')):
    name = os.path.basename(os.path.dirname(f))
    m = json.load(open(f))
    rows.append((key(name), name, m))
  rows.sort()
  n = len(rows)
  nno = sum(before(m) == 'no' for _, _, m in rows)
  n1 = sum(k[1] == 1 for k, _, _ in rows)
  out = ['### 12.5 Seeded changes (independent sub-agents, property text only) and which checks catch them', '',
         f'{n} changes in {max(k[1] for k, _, _ in rows)} rounds ({n1} in the first) were produced by fresh sub-agents that saw only the property text and their own scratch',
         'worktree (later rounds were additionally told which mechanisms round 1 had used, so as to get different ones; round 3 covered twelve properties, round 4 the other six, round 5 six again). Each was confirmed by',
         '`tools/confirm_seed.sh` (patch applies; demo fails with / passes without; related pinned tests still pass) and is stored under',
         f'`seeded/<id>/`. Column `before` = would the check have caught it as it was before the change was known ({nno} of {n}',
         'would not). For the round-2 changes of the non-physics properties the checks were hardened from the agents\' DESCRIPTIONS before',
         'the first run, so `before` is by analysis of the then model space; for the round-2 physics properties (C01-C08, C11, C16, C18) and all of rounds 3 to 5',
         '`before` is the result of a first run of the quick tier. Every miss led to a change of the MODEL SPACE (scene options,',
         'boundary states, dtypes, sessions in one process), of an exclusion rule or of the harness protocol - never to a special case',
         'for the patch. After those changes the quick tier catches every change except C16-3 (needs about 128 environments x 1000',
         'steps), C16-r2-1 (float64 only, at a resting state after hundreds of steps; the quick tier of C06 catches it instead) and',
         'C10-r3-3 (a fusing change filed under C10: the quick tier of C13 catches it).', '',
         '| id | change | before | caught by / what it took |', '|----|--------|--------|--------------------------|']
  for _, name, m in rows:
    summ = re.sub(r'\s+', ' ', m['summary']).replace('|', '/')
    if len(summ) > 140:
      summ = summ[:140] + '…'
    det = re.sub(r'\s+', ' ', m['detected_by']).replace('|', '/')
    out.append(f'| {name} | {summ} | {before(m)} | {det} |')
  text = '\n'.join(out) + '\n\n'
  p = os.path.join(ROOT, 'DESIGN.md')
  s = open(p).read()
  a = s.index('### 12.5 Seeded changes')
  b = s.index('### 12.6 ')
  open(p, 'w').write(s[:a] + text + s[b:])
  print(f'{n} seeds, {nno} missed before hardening')


if __name__ == '__main__':
  main()
