#!/venv/bin/python
"""Binding demonstration for the trace-validating specifications: after a check has run (its recorded traces are in .work/),
corrupt ONE field of ONE event (or drop one event) and show that TLC rejects exactly that trace.

usage: tools/selftest_traces.py            (uses whatever .work/ holds; run the quick checks first)"""
import copy
import json
import os
import sys

ROOT = os.path.dirname(os.path.dirname(os.path.abspath(__file__)))
sys.path.insert(0, ROOT)
from harness import tlc  # noqa: E402

W = os.path.join(ROOT, '.work')
# (module, cfg, trace file, corruption)   corruption(traces) -> (index of corrupted trace (0-based), description)


def bump(field, pick=lambda t: len(t) // 2, delta=1):
  def f(traces):
    for i, t in enumerate(traces):
      k = pick(t)
      if 0 <= k < len(t) and isinstance(t[k].get(field), int) and t[k][field] >= 0:
        t[k][field] += delta
        return i, f'event {k + 1} field {field} += {delta}'
    return None, None
  return f


def drop_event(traces):
  for i, t in enumerate(traces):
    if len(t) > 4:
      del t[len(t) // 2]
      return i, 'dropped one event'
  return None, None


CASES = [
    ('EpisodeWrappersTrace', 'c15-wrap-L2-R1', bump('reward')),
    ('EpisodeWrappersTrace', 'c15-wrap-L3-R2', bump('steps')),
    ('EpisodeWrappersTrace', 'c15-create-L4-R1', drop_event),
    ('ReplayQueueTrace', None, bump('size')),
    ('ShardedQueueTrace', None, bump('size')),
    ('RunningStatsTrace', 'c18-trace', bump('count', pick=lambda t: 0)),
    ('MomentumTrace', 'c04-trace', lambda tr: _set(tr, 'momentum', 'res', [5000, 0, 0])),
    ('Equivariance', 'c05', lambda tr: _set(tr, 'rigid', 'res_pose', 10**9)),
    ('ContactLaws', 'c06', lambda tr: _set(tr, 'inert', 'diff', 10**9)),
    ('Batch', 'c07', lambda tr: _set(tr, 'pointwise', 'res', 10**9)),
    ('EnvContract', 'c16', bump('digest', pick=lambda t: len(t) - 2)),
    ('InferenceFlow', 'c20-flow', bump('stats', pick=lambda t: 2)),      # the preprocess call must receive the supplied statistics
    ('EnvRewards', 'x06', bump('reward', delta=50)),
    ('EnvRewards', 'x06', bump('psi', delta=500)),        # the forward law is a law across two steps
    ('InferenceFlow', 'c20-flow', bump('actions', pick=lambda t: [k for k, e in enumerate(t) if e['ev'] == 'log_prob'][0])),
]


def _set(traces, kind, field, value):
  for i, t in enumerate(traces):
    for k, e in enumerate(t):
      if e.get('kind') == kind and not e.get('diverged') and e.get('free_rooted', 1) and e.get('guard_before', 1) and e.get('guard_after', 1):
        e[field] = value
        return i, f'event {k + 1} ({kind}) field {field} := {value}'
  return None, None


def find(module, name):
  if name:
    return os.path.join(W, name + '.cfg'), os.path.join(W, name.replace('-trace', '') + '.json') if not os.path.exists(
        os.path.join(W, name + '.json')) else os.path.join(W, name + '.json')
  pref = 'trace-queue' if module == 'ReplayQueueTrace' else None
  for f in sorted(os.listdir(W)):
    if f.endswith('.cfg') and f.startswith('trace-'):
      is_sh = 'pjit' in f or 'pmap' in f
      if (module == 'ShardedQueueTrace') == is_sh and 'uniform' not in f:
        return os.path.join(W, f), os.path.join(W, f[:-4] + '.json')
  return None, None


def main():
  ok = True
  for module, name, corrupt in CASES:
    cfg, tf = find(module, name)
    if not cfg or not os.path.exists(cfg) or not os.path.exists(tf):
      print(f'SKIP {module} {name}: no recorded traces in .work (run the check first)')
      continue
    traces = json.load(open(tf))
    base = tlc.run(module, cfg, name='selftest-base', workers=1, env={'TRACE_FILE': tf})
    if not base.ok:
      # traces that reproduce a listed known finding are rejected by design: leave them out
      rej0 = tlc.parse_rejects(base, 'selftest-base')
      traces = [t for i, t in enumerate(traces) if (i + 1) not in rej0]
      print(f'note {module} {name}: {len(rej0)} recorded traces are rejected already (known findings); using the other {len(traces)}')
    t2 = copy.deepcopy(traces)
    idx, what = corrupt(t2)
    if idx is None:
      print(f'SKIP {module} {name}: nothing to corrupt')
      continue
    tf2 = os.path.join(W, 'selftest.json')
    json.dump(t2, open(tf2, 'w'))
    res = tlc.run(module, cfg, name='selftest', workers=1, env={'TRACE_FILE': tf2})
    rej = tlc.parse_rejects(res, 'selftest') if not res.ok else {}
    good = list(rej) == [idx + 1]
    print(f'{"OK  " if good else "FAIL"} {module} {os.path.basename(tf)}: {what} in trace {idx + 1} -> rejected traces {sorted(rej)}')
    ok = ok and good
  return 0 if ok else 1


if __name__ == '__main__':
  sys.exit(main())
