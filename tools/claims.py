"""Per-property claims that go into MANIFEST.json (tools/manifest.py renders them)."""
CLAIMED = {
 'C17': dict(level='model_checking', design='DESIGN.md §5 C17',
   technique='TLA+ state machine (ReplayQueue.tla, ShardedQueue.tla) model-checked with TLC; state graph replayed edge-by-edge into the real buffers; recorded histories validated by trace specifications',
   text='TLC checks the queue design exhaustively (all op sequences to the depth bound, and all histories of any length in the age-normalised closure configs); every transition of the bounded graph is executed on the real Queue/UniformSamplingQueue/PmapWrapper/PjitWrapper and random long histories are validated as behaviours of the spec. The property is about discrete state over histories, which is what model checking decides.',
   note='Trusted: TLC, the harness decode of record ids from payloads, the edge-for-path argument (impl state compared with spec state after each edge). Bounds: Cap<=3/Batch<=2/depth 6 quick; Cap<=5/Batch<=4/depth 7 thorough; shards 2-4 via forced host devices.'),
 'C15': dict(level='model_checking', design='DESIGN.md §5 C15',
   technique='TLA+ state machine of the wrapper stack with a ghost episode ledger (EpisodeWrappers.tla) model-checked with TLC over all schedules; recorded per-member histories of the real wrappers, generate_unroll and Evaluator validated by EpisodeWrappersTrace.tla',
   text='TLC checks nine ledger invariants over every termination schedule x episode_length x action_repeat within the bounds; the real wrapper stacks (training.wrap order, envs.create order, EvalWrapper, DomainRandomizationVmapWrapper), acting.generate_unroll and acting.Evaluator run on a scripted environment whose batch members carry all schedules, and every member history must be a behaviour of the spec (all State fields compared after every step).',
   note='Trusted: TLC; the scripted Env (a real brax Env subclass) and its integer decoding; brax.v1 stubbed for import. Bounds: schedules 2^6, L<=4, R<=2 quick; 2^8, L<=6, R<=3 thorough; plus sampled long schedules with random actions.'),
 'C19': dict(level='model_checking', design='DESIGN.md §5 C19',
   technique='executable exact (dyadic) TLA+ specification Gae.tla: TLC checks reverse-scan = defining-sum for all masks; every final state replayed bit-exactly into compute_gae',
   text='TLC proves, for every termination/truncation mask pattern up to T=4 (5 thorough; sampled masks to T=12) and lattice data, that the reverse scan equals the defining GAE sum and its corollaries; all resulting (input, expected output) states are evaluated by the real compute_gae in float64 where dyadic arithmetic is exact, compared bit-for-bit, in [T,B] batches with distinct columns; gradients must vanish.',
   note='Trusted: TLC; exactness of float64 on dyadic lattice values; data lattice is -2..2 (-5..5 thorough) with lambda, discount in {0, 1/2, 1} (plus quarters thorough) - arbitrary real coefficients are covered only through polynomial dependence.'),
 'C18': dict(level='model_checking', design='DESIGN.md §5 C18',
   technique='exact-rational TLA+ state machine RunningStats.tla (Welford step, sharded psum step, ghost bag) model-checked with TLC; every state replayed into update/normalize/denormalize; long integer histories validated by RunningStatsTrace.tla',
   text='TLC checks on exact rationals that the batched Welford accumulator (and its per-device psum variant) equals the population statistics of the multiset of weighted samples seen, for every way of batching within the bounds, plus the affine lemma that licenses exact rescaling; every explored state is replayed into the real functions with batch axes, nest kind, scale/offset and weights=None varied, and random long histories are validated the other way.',
   note='Trusted: TLC, float64 (x64) comparisons at 1e-9 relative, std compared through its square and the clip case; exhaustive bound is 2 batches of <=2 samples on {-1,0,2} x weights 0..2, deeper/wider by random picks; 2 forced host devices for the sharded path.'),
 'C09': dict(level='model_checking', design='DESIGN.md §5 C09',
   technique='TLA+ specifications SpatialAlgebra.tla (integers, grid larger than polynomial degree) and SpatialRat.tla (exact rationals on unit quaternions) model-checked with TLC; every computed state replayed exactly into brax.math / brax.base',
   text='Each law is a TLC invariant over an input grid with more points per variable than its per-variable degree (exhaustive for the quaternion and rotation families, sampled for the 19-26 variable transform/motion/force families), so holding on the grid is a polynomial identity; the real functions must return exactly the integers/rationals the specification computed for every primitive involved, which transfers the laws to the code.',
   note='Trusted: TLC; float64 exactness on small integers; the code being polynomial of the stated degree; unit-quaternion laws at 15 rational unit quaternions x small integer data (tolerance 1e-12).'),
}
NA = {
 'C03': 'property is about derivatives of a floating-point program vs. a finite-difference limit: no state, history or exact-arithmetic rendering for a TLA+ specification (DESIGN.md §6)',
 'C12': 'property is about the limit dt->0 of irrational trajectories; the exactly computable family satisfies a stronger invariant that does not decide it (DESIGN.md §6)',
}
