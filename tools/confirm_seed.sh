#!/bin/sh
# usage: tools/confirm_seed.sh <worktree> <n> <PID> <test files...>
# confirms candidate n (patch<n>.diff, demo<n>.py, meta<n>.json) in the scratch worktree and stores it under seeded/
wt=$1; n=$2; pid=$3; shift 3
cd $wt || exit 2
git checkout -q -- brax
git apply patch$n.diff || { echo "APPLY FAILED"; exit 2; }
PYTHONPATH=$wt timeout 600 /venv/bin/python demo$n.py > /tmp/demo_with_$pid.log 2>&1; with=$?
PYTHONPATH=$wt timeout 3000 /venv/bin/python -m pytest -q -p no:cacheprovider -x "$@" > /tmp/tests_with_$pid.log 2>&1; trc=$?
git checkout -q -- brax
PYTHONPATH=$wt timeout 600 /venv/bin/python demo$n.py > /tmp/demo_without_$pid.log 2>&1; without=$?
echo "candidate $pid-$n: demo_with_patch_exit=$with demo_without_exit=$without tests_rc=$trc ($(tail -1 /tmp/tests_with_$pid.log))"
if [ $with -eq 1 ] && [ $without -eq 0 ] && [ $trc -eq 0 ]; then
  d=/verif/seeded/$pid-${SEEDPREFIX:-}$n; mkdir -p $d
  cp patch$n.diff $d/patch.diff; cp demo$n.py $d/demo.py; cp meta$n.json $d/agent_meta.json
  echo "$@" > $d/tests_run.txt; tail -1 /tmp/tests_with_$pid.log >> $d/tests_run.txt
  echo CONFIRMED
else
  echo NOT-CONFIRMED
fi
