#!/bin/sh
# usage: tools/sweep.sh <tier> <seeds...>   (env PIDS="C01 C02 ..." to restrict) -- runs every check, prints one line per run
tier=$1; shift
PIDS=${PIDS:-"C01 C02 C04 C05 C06 C07 C08 C09 C10 C11 C13 C14 C15 C16 C17 C18 C19 C20"}
cd "$(dirname "$0")/.."; mkdir -p .work
for seed in "$@"; do
  for p in $PIDS; do
    t0=$(date +%s)
    VERIF_SEED=$seed ./check $p --tier $tier > .work/sweep_${p}_${seed}.log 2>&1
    rc=$?
    t1=$(date +%s)
    echo "seed=$seed $p tier=$tier rc=$rc wall=$((t1-t0))s viol=$(grep -c '^VIOLATION' .work/sweep_${p}_${seed}.log) $(grep -m1 'MACHINERY' .work/sweep_${p}_${seed}.log | cut -c1-160)"
  done
done
