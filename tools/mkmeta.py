import json, sys, os
# usage: mkmeta.py <seed dir name> <caught_before yes|no> <detected_by text>
name, before, det = sys.argv[1], sys.argv[2], sys.argv[3]
d = f'/verif/seeded/{name}'
am = json.load(open(f'{d}/agent_meta.json'))
tr = open(f'{d}/tests_run.txt').read().strip().split('\n')
pid = name.split('-')[0]
meta = {'property': pid, 'round': (int(name.split('-r')[1].split('-')[0]) if '-r' in name else 1), 'summary': am.get('summary', ''), 'needs': am.get('needs', ''),
        'confirmed': {'how': 'tools/confirm_seed.sh in a scratch worktree: patch applies; demo exits 1 with the patch and 0 without; listed existing tests pass with the patch',
                      'tests_run': tr},
        'what_we_ran': f'tools/try_patch.sh seeded/{name}/patch.diff {pid} quick',
        'caught_by_the_check_as_it_was_before_this_change_was_known': before, 'detected_by': det}
json.dump(meta, open(f'{d}/meta.json', 'w'), indent=1)
print('wrote', d)
