#!/bin/sh
# usage: batch_try.sh "c01:1 c01:2 ..."  -> /tmp/batch_try.out
for item in $1; do
  d=${item%%:*}; n=${item##*:}
  pid=$(echo $d | tr a-z A-Z)
  /verif/tools/try_patch.sh /tmp/wt${ROUND:-2}-$d/patch$n.diff $pid quick
done
