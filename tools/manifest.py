#!/usr/bin/env python3
"""Regenerates MANIFEST.json from the table below and validates it."""
import json, os, subprocess, sys
ROOT = os.path.dirname(os.path.dirname(os.path.abspath(__file__)))
sys.path.insert(0, ROOT)
from tools.claims import CLAIMED, NA
props = [json.loads(l)['id'] for l in open(os.path.join(ROOT, 'properties.jsonl'))]
checks = []
for p in props:
  if p in CLAIMED:
    c = CLAIMED[p]
    checks.append({
      'property_id': p,
      'quick_cmd': f'./check {p} --tier quick',
      'thorough_cmd': f'./check {p} --tier thorough',
      'evidence_file': f'evidence/{p}.json',
      'replay_cmd_template': f'./check {p} --replay {{path}}',
      'engine': 'tlc',
      'level_claimed': {'category': c['level'], 'text': c['text'], 'design_ref': c['design']},
      'level_note': c['note'],
      'technique': c['technique'],
    })
na = [{'property_id': p, 'reason': NA.get(p, 'check not built yet (build in progress)')} for p in props if p not in CLAIMED]
m = {
 'version': 1,
 'setup_cmd': 'true',
 'hooks': {'guard': 'BRAX_VERIF', 'enable': 'BRAX_VERIF=1 in the environment of ./check (set by the entry point); no source hooks are committed: every verdict reads public return values',
           'baseline_off_cmd': 'cd /repo && /venv/bin/python -m pytest -ra -q -p no:cacheprovider --timeout=900 --continue-on-collection-errors',
           'source_commits': [], 'add_only': True},
 'engines': [{'name': 'tlc', 'path': 'harness/tlc.py', 'serves_properties': sorted(CLAIMED),
              'kind_free_text': 'TLC 1.8 explicit-state model checker over the TLA+ specifications in spec/, bound to /repo by graph replay (spec->code) and trace validation (code->spec)'}],
 'checks': checks,
 'notes': 'Every check imports brax from /repo\'s working tree at run time (editable install), so nothing is built ahead of time. Exit 2 = machinery failure, never a verdict.',
 'not_applicable': na,
}
json.dump(m, open(os.path.join(ROOT, 'MANIFEST.json'), 'w'), indent=1)
r = subprocess.run(['python3-vt', '-c', 'import json,jsonschema;jsonschema.validate(json.load(open("%s/MANIFEST.json")),json.load(open("/root/.vp/MANIFEST.schema.json")));print("MANIFEST valid")' % ROOT])
sys.exit(r.returncode)
