#!/bin/sh
# usage: tools/try_patch.sh <patch.diff> <PID> [tier]   -- applies to /repo, runs the check, always reverts
patch=$1; pid=$2; tier=${3:-quick}
cd /repo || exit 2
git diff --quiet || { echo "/repo is dirty"; exit 2; }
git apply "$patch" || { echo "patch does not apply"; exit 2; }
cd /verif
./check $pid --tier $tier > /tmp/try_$pid.log 2>&1
rc=$?
git -C /repo checkout -- .
nv=$(grep -c '^VIOLATION' /tmp/try_$pid.log)
echo "patch=$patch pid=$pid rc=$rc violations=$nv"
grep -m2 -A1 '^VIOLATION' /tmp/try_$pid.log | cut -c1-400
grep 'MACHINERY' /tmp/try_$pid.log | head -3
find /verif/replays -name "$pid-*" -delete
exit 0
